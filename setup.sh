#!/bin/sh
# offline setup: nothing to fetch; verify the tools are present
set -e
cd "$(dirname "$0")"
for t in cbmc goto-cc goto-instrument gcc python3; do command -v $t >/dev/null || { echo "missing $t"; exit 1; }; done
mkdir -p evidence
exit 0
