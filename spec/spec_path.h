/* spec_path.h - abstract views and the segment-level algorithms of RFC 3986 section 5.2 (specification side).
 * Written from the RFC and from the property statements, not from the implementation.  Pure C, loops bounded by
 * SV_MAXSEG; used in bounded obligations only.  Include after the library's .c files (URI_CHAR defined). */
#ifndef SPEC_PATH_H
#define SPEC_PATH_H
#include "vuri.h"

#define SV_MAXSEG (2 * VM + 3)

struct sv_txt { int len; URI_CHAR c[VL > 0 ? VL : 1]; };   /* text by value (no pointers: cheap for the solver); len == -1: absent */
struct sv_path { int rooted; int n; struct sv_txt seg[SV_MAXSEG]; };
struct sv_view {
	struct sv_txt scheme, userInfo, hostText, port, query, fragment;
	int hostkind; unsigned char ip[16];
	struct sv_path path;          /* rooted: the path text starts with '/' */
};

static int sv_txt_eq(const struct sv_txt *a, const struct sv_txt *b) {
	int i;
	if (a->len != b->len) return 0;
	for (i = 0; i < VL; i++) if (i < a->len && a->c[i] != b->c[i]) return 0;
	return 1;
}
static int sv_is(const struct sv_txt *t, int len, URI_CHAR c0, URI_CHAR c1) {
	if (t->len != len) return 0;
	if (len >= 1 && t->c[0] != c0) return 0;
	if (len >= 2 && VL >= 2 && t->c[VL >= 2 ? 1 : 0] != c1) return 0;
	return 1;
}
static struct sv_txt sv_empty(void) { struct sv_txt t; int i; t.len = 0; for (i = 0; i < VL; i++) t.c[i] = 0; return t; }
static struct sv_txt sv_absent(void) { struct sv_txt t = sv_empty(); t.len = -1; return t; }
static struct sv_txt sv_dot_txt(void) { struct sv_txt t = sv_empty(); t.len = 1; t.c[0] = _UT('.'); return t; }
/* copy of a real range (one dereference per character, nothing else touches memory) */
static struct sv_txt sv_of_range(const URI_CHAR *first, const URI_CHAR *afterLast) {
	struct sv_txt t = sv_empty(); int i;
	if (first == NULL) { t.len = -1; return t; }
	t.len = (int)(afterLast - first);
	for (i = 0; i < VL; i++) if (i < t.len) t.c[i] = first[i];
	return t;
}
#define SV_IS_DOT(t) sv_is((t), 1, _UT('.'), 0)
#define SV_IS_DOTDOT(t) sv_is((t), 2, _UT('.'), _UT('.'))

static struct sv_txt sv_of_rng(const struct vu_rng *r, const URI_CHAR *pool) {
	struct sv_txt t = sv_empty(); int i;
	t.len = r->len;
	for (i = 0; i < VL; i++) if (i < r->len) t.c[i] = pool[r->off + i];
	return t;
}
/* view of a shape */
static void sv_of_shape(struct sv_view *v, const struct vu_shape *s, const URI_CHAR *pool) {
	int i;
	v->scheme = sv_of_rng(&s->scheme, pool); v->userInfo = sv_of_rng(&s->userInfo, pool);
	v->hostText = sv_of_rng(&s->hostText, pool); v->port = sv_of_rng(&s->port, pool);
	v->query = sv_of_rng(&s->query, pool); v->fragment = sv_of_rng(&s->fragment, pool);
	v->hostkind = s->hostkind;
	for (i = 0; i < 16; i++) v->ip[i] = s->ip[i];
	v->path.n = s->nseg;
	v->path.rooted = s->absolutePath || (s->hostkind != VU_HK_NONE && s->nseg > 0);
	for (i = 0; i < SV_MAXSEG; i++) {
		if (i < VM && i < s->nseg) v->path.seg[i] = sv_of_rng(&s->seg[i], pool);
		else v->path.seg[i] = sv_empty();
	}
}
/* view of a real object (bounded walk); returns 0 if the list is longer than SV_MAXSEG or malformed */
static int sv_of_uri(struct sv_view *v, const URI_TYPE(Uri) *u) {
	const URI_TYPE(PathSegment) *w = u->pathHead;
	int i, n = 0, ok = 1;
#define SV_R(f, r) v->f = sv_of_range((r).first, (r).afterLast)
	SV_R(scheme, u->scheme); SV_R(userInfo, u->userInfo); SV_R(hostText, u->hostText); SV_R(port, u->portText);
	SV_R(query, u->query); SV_R(fragment, u->fragment);
	v->hostkind = (u->hostData.ip4 != NULL) ? VU_HK_IP4 : (u->hostData.ip6 != NULL) ? VU_HK_IP6
		: (u->hostData.ipFuture.first != NULL) ? VU_HK_FUT : (u->hostText.first != NULL) ? VU_HK_REG : VU_HK_NONE;
	for (i = 0; i < 16; i++) v->ip[i] = 0;
	if (u->hostData.ip4 != NULL) for (i = 0; i < 4; i++) v->ip[i] = u->hostData.ip4->data[i];
	if (u->hostData.ip6 != NULL) for (i = 0; i < 16; i++) v->ip[i] = u->hostData.ip6->data[i];
	for (i = 0; i < SV_MAXSEG; i++) {
		if (w != NULL) {
			if (w->text.first == NULL || w->text.afterLast == NULL) { ok = 0; v->path.seg[n] = sv_empty(); }
			else { SV_R(path.seg[n], w->text); if (v->path.seg[n].len < 0 || v->path.seg[n].len > VL) ok = 0; }
			n++; w = w->next;
		} else v->path.seg[i] = sv_empty();
	}
#undef SV_R
	if (w != NULL) ok = 0;
	v->path.n = n;
	v->path.rooted = u->absolutePath || (v->hostkind != VU_HK_NONE && n > 0);
	return ok;
}

/* canonical form of an abstract path: "/" is (rooted, []) ; "" is (unrooted, []) */
static void sv_canon(struct sv_path *p) {
	if (p->n == 1 && p->seg[0].len == 0) p->n = 0;
}
static int sv_path_eq(const struct sv_path *a, const struct sv_path *b) {
	struct sv_path x = *a, y = *b;
	int i;
	sv_canon(&x); sv_canon(&y);
	if (x.rooted != y.rooted || x.n != y.n) return 0;
	for (i = 0; i < SV_MAXSEG; i++) if (i < x.n && !sv_txt_eq(&x.seg[i], &y.seg[i])) return 0;
	return 1;
}


/* RFC 3986 5.2.4 at segment level.  `keepLeadingUp`: a relative-path reference keeps the ".." segments it cannot
 * resolve (used by normalization, not by resolution).  Rootedness is never changed. */
static void spec_remove_dots(struct sv_path *out, const struct sv_path *in, int keepLeadingUp) {
	int i, n = 0, last;
	struct sv_txt empty = sv_empty();
	out->rooted = in->rooted;
	for (i = 0; i < SV_MAXSEG; i++) out->seg[i] = sv_empty();
	for (i = 0; i < SV_MAXSEG; i++) {
		if (i < in->n) {
			last = (i == in->n - 1);
			if (SV_IS_DOT(&in->seg[i])) {
				if (last) out->seg[n++] = empty;
			} else if (SV_IS_DOTDOT(&in->seg[i])) {
				if (n > 0 && !(keepLeadingUp && SV_IS_DOTDOT(&out->seg[n - 1]))) { n--; if (last) out->seg[n++] = empty; }
				else if (keepLeadingUp) out->seg[n++] = in->seg[i];
				else if (last) out->seg[n++] = empty;
			} else {
				out->seg[n++] = in->seg[i];
			}
		}
	}
	out->n = n;
}

/* RFC 3986 5.2.3 */
static void spec_merge(struct sv_path *out, const struct sv_path *base, int baseHasAuthority, const struct sv_path *ref) {
	int i, k = 0;
	for (i = 0; i < SV_MAXSEG; i++) out->seg[i] = sv_empty();
	if (baseHasAuthority && base->n == 0) out->rooted = 1;
	else {
		out->rooted = base->rooted;
		for (i = 0; i < SV_MAXSEG; i++) if (i + 1 < base->n) out->seg[k++] = base->seg[i];
	}
	for (i = 0; i < SV_MAXSEG; i++) if (i < ref->n && k < SV_MAXSEG) out->seg[k++] = ref->seg[i];
	out->n = k;
}

/* text of the path starts with "//" */
static int sv_path_starts_dslash(const struct sv_path *p) { return p->rooted && p->n >= 2 && p->seg[0].len == 0; }
/* text of an unrooted path starts with "/" (first segment empty, more follow) */
static int sv_path_unrooted_reads_rooted(const struct sv_path *p) { return !p->rooted && p->n >= 2 && p->seg[0].len == 0; }

/* the "/." guard of the property: only where the result would be a host-less path beginning with "//" */
static void spec_guard(struct sv_path *p, int hasAuthority) {
	int i;
	if (!hasAuthority && sv_path_starts_dslash(p) && p->n < SV_MAXSEG) {
		for (i = SV_MAXSEG - 1; i > 0; i--) p->seg[i] = p->seg[i - 1];
		p->seg[0] = sv_dot_txt();
		p->n++;
	}
}

/* RFC 3986 5.2.2 on views.  identicalSchemeCompat: option URI_RESOLVE_IDENTICAL_SCHEME_COMPAT */
static void spec_resolve(struct sv_view *t, const struct sv_view *r, const struct sv_view *b, int identicalSchemeCompat) {
	int rHasScheme = r->scheme.len >= 0;
	const struct sv_view *auth;
	if (identicalSchemeCompat && rHasScheme && sv_txt_eq(&r->scheme, &b->scheme)) rHasScheme = 0;
	if (rHasScheme) {
		t->scheme = r->scheme; auth = r;
		spec_remove_dots(&t->path, &r->path, 0);
		t->query = r->query;
	} else {
		if (r->hostkind != VU_HK_NONE) {
			auth = r;
			spec_remove_dots(&t->path, &r->path, 0);
			t->query = r->query;
		} else {
			auth = b;
			if (r->path.n == 0 && !r->path.rooted) {
				t->path = b->path;
				t->query = (r->query.len >= 0) ? r->query : b->query;
			} else {
				if (r->path.rooted) {
					spec_remove_dots(&t->path, &r->path, 0);
				} else {
					struct sv_path m;
					spec_merge(&m, &b->path, b->hostkind != VU_HK_NONE, &r->path);
					spec_remove_dots(&t->path, &m, 0);
				}
				t->query = r->query;
			}
		}
		t->scheme = b->scheme;
	}
	t->userInfo = auth->userInfo; t->hostText = auth->hostText; t->port = auth->port; t->hostkind = auth->hostkind;
	{ int i; for (i = 0; i < 16; i++) t->ip[i] = auth->ip[i]; }
	t->fragment = r->fragment;
	spec_guard(&t->path, t->hostkind != VU_HK_NONE);
}

static int sv_auth_eq(const struct sv_view *a, const struct sv_view *b) {
	int i;
	if (a->hostkind != b->hostkind) return 0;
	if (!sv_txt_eq(&a->userInfo, &b->userInfo) || !sv_txt_eq(&a->port, &b->port)) return 0;
	if (a->hostkind == VU_HK_IP4) { for (i = 0; i < 4; i++) if (a->ip[i] != b->ip[i]) return 0; return 1; }
	if (a->hostkind == VU_HK_IP6) { for (i = 0; i < 16; i++) if (a->ip[i] != b->ip[i]) return 0; return 1; }
	return sv_txt_eq(&a->hostText, &b->hostText);
}

/* structural well-formedness of a real object (C07): list terminates within bound, tail is the last node,
 * a host never coexists with the absolute-path flag, ranges both NULL or both set and ordered */
static int sv_wf_uri(const URI_TYPE(Uri) *u) {
	const URI_TYPE(PathSegment) *w = u->pathHead, *last = NULL;
	int i;
#define SV_RW(r) (((r).first == NULL) == ((r).afterLast == NULL) && ((r).first == NULL || (r).first <= (r).afterLast))
	if (!SV_RW(u->scheme) || !SV_RW(u->userInfo) || !SV_RW(u->hostText) || !SV_RW(u->portText) || !SV_RW(u->query)
			|| !SV_RW(u->fragment) || !SV_RW(u->hostData.ipFuture)) return 0;
	for (i = 0; i < SV_MAXSEG + 1; i++) {
		if (w != NULL) {
			if (w->text.first == NULL || w->text.afterLast == NULL || !(w->text.first <= w->text.afterLast)) return 0;
			last = w; w = w->next;
		}
	}
#undef SV_RW
	if (w != NULL) return 0;
	if (u->pathTail != last) return 0;
	if ((u->hostText.first != NULL || u->hostData.ip4 != NULL || u->hostData.ip6 != NULL || u->hostData.ipFuture.first != NULL)
			&& u->absolutePath) return 0;
	if ((u->hostData.ip4 != NULL) + (u->hostData.ip6 != NULL) + (u->hostData.ipFuture.first != NULL) > 1) return 0;
	return 1;
}

/* the three shape conditions under which recomposed text is read back the same way (DESIGN 3.2 reparse_safe) */
static int sv_contains(const struct sv_txt *t, URI_CHAR c) {
	int i; for (i = 0; i < VL; i++) if (i < t->len && t->c[i] == c) return 1; return 0;
}
static int sv_reparse_safe(const struct sv_view *v) {
	int hasAuth = v->hostkind != VU_HK_NONE;
	if (!hasAuth && sv_path_starts_dslash(&v->path)) return 0;                /* "//x" would be read as authority */
	if (sv_path_unrooted_reads_rooted(&v->path)) return 0;                   /* ("", "b") unrooted is written "/b" */
	if (v->scheme.len < 0 && !hasAuth && !v->path.rooted && v->path.n > 0 && sv_contains(&v->path.seg[0], _UT(':'))) return 0;
	return 1;
}
#endif
