/* spec_ip.h - RFC 3986 IPv4address as a reference recogniser (specification side, written from the ABNF):
 *   IPv4address = dec-octet "." dec-octet "." dec-octet "." dec-octet
 *   dec-octet   = DIGIT / %x31-39 DIGIT / "1" 2DIGIT / "2" %x30-34 DIGIT / "25" %x30-35
 * i.e. four maximal digit runs of 1..3 digits without leading zero (unless the run is "0") and value <= 255, separated by
 * single dots, and nothing else.  The longest member has 15 characters, so the recogniser looks at 16 at most. */
#ifndef SPEC_IP_H
#define SPEC_IP_H
/* returns 1 and fills oct[4] iff text[0..n) is an IPv4address */
static int spec_ip4(const URI_CHAR *text, unsigned long n, unsigned char oct[4]) {
	unsigned long pos = 0;
	int k, d;
	if (n < 7 || n > 15) return 0;
	for (k = 0; k < 4; k++) {
		unsigned val = 0; int len = 0; int lead0 = 0;
		for (d = 0; d < 3; d++) {
			if (pos < n && text[pos] >= _UT('0') && text[pos] <= _UT('9')) {
				if (len == 0 && text[pos] == _UT('0')) lead0 = 1;
				val = val * 10 + (unsigned)(text[pos] - _UT('0')); len++; pos++;
			}
		}
		if (len == 0) return 0;
		if (pos < n && text[pos] >= _UT('0') && text[pos] <= _UT('9')) return 0;   /* a fourth digit */
		if (lead0 && len > 1) return 0;
		if (val > 255) return 0;
		oct[k] = (unsigned char)val;
		if (k < 3) { if (!(pos < n && text[pos] == _UT('.'))) return 0; pos++; }
	}
	return pos == n;
}

/* RFC 3986 IPv6address followed by "]" (reference recogniser written from the ABNF, independent of the scanner's counters):
 *   pieces of 1..4 hex digits separated by single ':'; at most one "::", which stands for at least one zero piece; the last
 *   two pieces may be written as an IPv4address; without "::" exactly 8 pieces, with "::" at most 7.
 * On acceptance returns the number of characters including the ']' (>= 3) and fills the 16 address bytes; else returns 0. */
static int sp_hex(URI_CHAR c) {
	if (c >= _UT('0') && c <= _UT('9')) return (int)(c - _UT('0'));
	if (c >= _UT('a') && c <= _UT('f')) return (int)(c - _UT('a')) + 10;
	if (c >= _UT('A') && c <= _UT('F')) return (int)(c - _UT('A')) + 10;
	return -1;
}
/* One left-to-right pass with concrete positions (cheap for the solver); SPEC_IP6_MAX = longest text looked at. */
#ifndef SPEC_IP6_MAX
# define SPEC_IP6_MAX 48
#endif
static unsigned long spec_ip6(const URI_CHAR *t, unsigned long n, unsigned char out[16]) {
	unsigned short piece[8];
	int np = 0, zip = -1, colons = 0, i, k;
	int run_len = 0, run_alldec = 1, run_lead0 = 0; unsigned run_hex = 0, run_dec = 0;   /* current run of hex digits */
	int ip4 = 0, dots = 0; unsigned char o4[4];
	unsigned long used = 0; int dead = 0;
	for (k = 0; k < 8; k++) piece[k] = 0;
	for (k = 0; k < 4; k++) o4[k] = 0;
	for (i = 0; i < SPEC_IP6_MAX; i++) {
		if (!dead && used == 0 && (unsigned long)i < n) {
			URI_CHAR c = t[i];
			int h = sp_hex(c), isdec = (c >= _UT('0') && c <= _UT('9'));
			if (ip4) {
				if (isdec) {
					if (run_len == 3) dead = 1;
					else { if (run_len == 0 && c == _UT('0')) run_lead0 = 1; run_dec = run_dec * 10 + (unsigned)h; run_len++; }
				} else if (c == _UT('.') || c == _UT(']')) {
					if (run_len == 0 || (run_lead0 && run_len > 1) || run_dec > 255) dead = 1;
					else if (c == _UT('.')) { if (dots == 3) dead = 1; else { o4[dots++] = (unsigned char)run_dec; run_len = 0; run_dec = 0; run_lead0 = 0; } }
					else {
						if (dots != 3) dead = 1;
						else {
							o4[3] = (unsigned char)run_dec;
							if (np > 6) dead = 1;
							else { piece[np] = (unsigned short)(o4[0] * 256 + o4[1]); piece[np + 1] = (unsigned short)(o4[2] * 256 + o4[3]); np += 2; used = (unsigned long)i + 1; }
						}
					}
				} else dead = 1;
			} else if (h >= 0) {
				if (colons == 1 && np == 0 && zip < 0) dead = 1;           /* single leading ':' */
				else if (run_len == 4) dead = 1;
				else {
					if (run_len == 0 && c == _UT('0')) run_lead0 = 1;
					if (!isdec) run_alldec = 0;
					run_hex = run_hex * 16 + (unsigned)h; run_dec = run_dec * 10 + (unsigned)(isdec ? h : 0); run_len++; colons = 0;
				}
			} else if (c == _UT(':')) {
				if (run_len > 0) { if (np >= 8) dead = 1; else piece[np++] = (unsigned short)run_hex; run_len = 0; run_hex = 0; run_dec = 0; run_alldec = 1; run_lead0 = 0; }
				colons++;
				if (colons == 2) { if (zip >= 0) dead = 1; else zip = np; }
				else if (colons == 3) dead = 1;
				else if (colons == 1 && np == 0 && i != 0) dead = 1;
			} else if (c == _UT('.')) {
				if (run_len == 0 || run_len > 3 || !run_alldec || (run_lead0 && run_len > 1) || run_dec > 255) dead = 1;
				else { ip4 = 1; o4[0] = (unsigned char)run_dec; dots = 1; run_len = 0; run_dec = 0; run_lead0 = 0; }
			} else if (c == _UT(']')) {
				if (colons == 1) dead = 1;                                   /* single trailing ':' (or lone ':') */
				else {
					if (run_len > 0) { if (np >= 8) dead = 1; else piece[np++] = (unsigned short)run_hex; }
					if (!dead) used = (unsigned long)i + 1;
				}
			} else dead = 1;
		}
	}
	if (dead || used == 0) return 0;
	if (zip < 0 ? np != 8 : np > 7) return 0;
	for (i = 0; i < 16; i++) out[i] = 0;
	for (i = 0; i < 8; i++) {
		int src = -1;
		if (zip < 0) src = i; else if (i < zip) src = i; else if (i >= 8 - (np - zip)) src = i - (8 - np);
		for (k = 0; k < 8; k++) if (k == src) { out[2 * i] = (unsigned char)(piece[k] >> 8); out[2 * i + 1] = (unsigned char)(piece[k] & 255); }
	}
	return used;
}
#endif
