#!/usr/bin/env python3
"""grammar_tool.py - spec-level lemmas about the parser's documented LL(1) grammar (DESIGN 3.3 / C01 L1).

Inputs (both read from /repo's working tree on every run, nothing is cached):
  * the RFC 3986 ABNF in doc/rfc3986_grammar_only.txt,
  * the production comments ` * [rule]-><t>[rule]...` above the rule functions of src/UriParse.c (the grammar the code
    claims to implement; that the code *does* implement it is the job of the CBMC dispatch obligations).

What is computed (finite, complete constructions - no sampling):
  L1a  every recursion of the documented grammar is a tail call or goes through a strictly lower level (so the grammar
       denotes a regular language and the induction over the recursion is well founded),
  L1b  the language of [uriReference] equals the language of `URI-reference` of the ABNF: both are turned into DFAs over
       the same character classes, minimised and compared; a distinguishing word is printed if they differ.
       The IPv6 literal, which the comments only sketch (`[IPv6address2]->..<]>`), is taken from the ABNF
       (IPv6address "]"); the scanner itself is checked against a recogniser of that language by the ParseIPv6address2
       obligation.
  ll1  for every rule the FIRST sets of its productions are pairwise disjoint (the table is LL(1)); the table is written
       as JSON for the dispatch-contract generator.

usage: grammar_tool.py check [repo]        exit 0 ok / 1 lemma violated (prints `V:post ...`) / 2 tool problem
       grammar_tool.py table [repo]        prints the LL(1) table as JSON
"""
import json, os, re, sys

# ------------------------------------------------------------------------------------------------ character classes
ALPHA = set(range(0x41, 0x5B)) | set(range(0x61, 0x7B))
DIGIT = set(range(0x30, 0x3A))
HEXDIG = DIGIT | set(b"abcdefABCDEF")
UNRESERVED = ALPHA | DIGIT | set(b"-._~")
SUBDELIMS = set(b"!$&'()*+,;=")


# ------------------------------------------------------------------------------------------------ NFA / DFA
class NFA:
    def __init__(self):
        self.n = 0
        self.eps = {}
        self.tr = {}          # state -> list of (frozenset(chars), target)

    def new(self):
        self.n += 1
        return self.n - 1

    def add_eps(self, a, b):
        self.eps.setdefault(a, set()).add(b)

    def add(self, a, chars, b):
        self.tr.setdefault(a, []).append((frozenset(chars), b))


def eclose(nfa, states):
    st = list(states)
    seen = set(states)
    while st:
        s = st.pop()
        for t in nfa.eps.get(s, ()):
            if t not in seen:
                seen.add(t)
                st.append(t)
    return frozenset(seen)


def classes_of(nfa):
    """partition 0..255 into classes that no transition label separates"""
    sig = {}
    labels = set()
    for lst in nfa.tr.values():
        for chars, _ in lst:
            labels.add(chars)
    labels = sorted(labels, key=lambda s: sorted(s))
    for c in range(256):
        sig.setdefault(tuple(c in l for l in labels), []).append(c)
    return [v for v in sig.values()]


def determinize(nfa, start, final, classes):
    s0 = eclose(nfa, {start})
    ids = {s0: 0}
    trans = [{}]
    acc = [final in s0]
    work = [s0]
    while work:
        S = work.pop()
        i = ids[S]
        for ci, cl in enumerate(classes):
            rep = cl[0]
            T = set()
            for s in S:
                for chars, t in nfa.tr.get(s, ()):
                    if rep in chars:
                        T.add(t)
            if not T:
                continue
            T = eclose(nfa, T)
            if T not in ids:
                ids[T] = len(trans)
                trans.append({})
                acc.append(final in T)
                work.append(T)
            trans[i][ci] = ids[T]
    return trans, acc


def minimize(trans, acc, ncls):
    n = len(trans)
    dead = n                      # explicit dead state for completeness
    full = [[trans[s].get(c, dead) for c in range(ncls)] for s in range(n)] + [[dead] * ncls]
    accf = acc + [False]
    part = [0 if a else 1 for a in accf]
    while True:
        sig = {}
        newp = []
        for s in range(n + 1):
            k = (part[s], tuple(part[t] for t in full[s]))
            if k not in sig:
                sig[k] = len(sig)
            newp.append(sig[k])
        if len(set(newp)) == len(set(part)):
            part = newp
            break
        part = newp
    # states that can reach acceptance (live); the minimal DFA of the property text counts live states only
    blocks = {}
    for s in range(n + 1):
        blocks.setdefault(part[s], s)
    live = set()
    changed = True
    accb = {part[s] for s in range(n + 1) if accf[s]}
    live |= accb
    while changed:
        changed = False
        for b, s in blocks.items():
            if b not in live and any(part[t] in live for t in full[s]):
                live.add(b)
                changed = True
    return part, full, accf, len(blocks), len(live)


def equivalent(tA, aA, tB, aB, ncls, classes):
    """product search for a distinguishing word"""
    from collections import deque
    dA, dB = len(tA), len(tB)
    start = (0, 0)
    prev = {start: None}
    q = deque([start])
    while q:
        a, b = q.popleft()
        fa = aA[a] if a < dA else False
        fb = aB[b] if b < dB else False
        if fa != fb:
            w = []
            cur = (a, b)
            while prev[cur] is not None:
                cur, c = prev[cur]
                w.append(c)
            return False, bytes(classes[c][0] for c in reversed(w)), fa
        for c in range(ncls):
            na = tA[a].get(c, dA) if a < dA else dA
            nb = tB[b].get(c, dB) if b < dB else dB
            if (na, nb) not in prev:
                prev[(na, nb)] = ((a, b), c)
                q.append((na, nb))
    return True, b"", None


# ------------------------------------------------------------------------------------------------ ABNF -> NFA
class Abnf:
    def __init__(self, text):
        self.rules = {}
        cur = None
        for raw in text.splitlines():
            line = re.sub(r'("[^"]*")|;.*$', lambda m: m.group(1) or "", raw).rstrip()      # strip comments outside quotes
            if not line.strip():
                continue
            m = re.match(r"^([A-Za-z][A-Za-z0-9-]*)\s*=\s*(.*)$", line)
            if m and not raw.startswith(" "):
                cur = m.group(1)
                self.rules[cur] = m.group(2)
            else:
                self.rules[cur] += " " + line.strip()
        self.core = {"ALPHA": ALPHA, "DIGIT": DIGIT, "HEXDIG": HEXDIG}

    def tokens(self, s):
        return re.findall(r'"[^"]*"|%x[0-9A-Fa-f]+(?:-[0-9A-Fa-f]+)?|\d*\*\d*|\d+(?=[A-Za-z(<%"])|[A-Za-z][A-Za-z0-9-]*|<[^>]*>|[()\[\]/]', s)

    def build(self, nfa, name, stack=()):
        if name in stack:
            raise ValueError("ABNF rule %s is recursive" % name)
        toks = self.tokens(self.rules[name])
        pos = [0]

        def alt():
            s, f = nfa.new(), nfa.new()
            while True:
                a, b = concat()
                nfa.add_eps(s, a)
                nfa.add_eps(b, f)
                if pos[0] < len(toks) and toks[pos[0]] == "/":
                    pos[0] += 1
                    continue
                break
            return s, f

        def concat():
            s = nfa.new()
            cur = s
            while pos[0] < len(toks) and toks[pos[0]] not in ("/", ")", "]"):
                a, b = rep()
                nfa.add_eps(cur, a)
                cur = b
            return s, cur

        def rep():
            t = toks[pos[0]]
            lo, hi = 1, 1
            m = re.fullmatch(r"(\d*)\*(\d*)", t)
            if m:
                lo = int(m.group(1)) if m.group(1) else 0
                hi = int(m.group(2)) if m.group(2) else None
                pos[0] += 1
            elif re.fullmatch(r"\d+", t):
                lo = hi = int(t)
                pos[0] += 1
            start = pos[0]

            def one():
                pos[0] = start
                return elem()
            s = nfa.new()
            cur = s
            for _ in range(lo):
                a, b = one()
                nfa.add_eps(cur, a)
                cur = b
            if hi is None:
                a, b = one()
                nfa.add_eps(cur, a)
                nfa.add_eps(b, cur)
            else:
                end = nfa.new()
                nfa.add_eps(cur, end)
                for _ in range(hi - lo):
                    a, b = one()
                    nfa.add_eps(cur, a)
                    nfa.add_eps(b, end)
                    cur = b
                if hi == lo and lo == 0:
                    one()          # consume the element tokens (0<pchar>)
                cur = end
            if lo == 0 and hi == 0:
                pass
            return s, cur

        def elem():
            t = toks[pos[0]]
            pos[0] += 1
            if t == "(":
                r = alt()
                assert toks[pos[0]] == ")"
                pos[0] += 1
                return r
            if t == "[":
                a, b = alt()
                assert toks[pos[0]] == "]"
                pos[0] += 1
                nfa.add_eps(a, b)
                return a, b
            s, f = nfa.new(), nfa.new()
            if t.startswith('"'):
                cur = s
                for ch in t[1:-1]:
                    nxt = nfa.new()
                    cs = {ord(ch.lower()), ord(ch.upper())}      # ABNF literals are case-insensitive
                    nfa.add(cur, cs, nxt)
                    cur = nxt
                nfa.add_eps(cur, f)
            elif t.startswith("%x"):
                m = re.fullmatch(r"%x([0-9A-Fa-f]+)(?:-([0-9A-Fa-f]+))?", t)
                lo_ = int(m.group(1), 16)
                hi_ = int(m.group(2), 16) if m.group(2) else lo_
                nfa.add(s, set(range(lo_, hi_ + 1)), f)
            elif t.startswith("<"):
                name2 = t[1:-1]
                a, b = self.build(nfa, name2, stack + (name,)) if name2 in self.rules else (None, None)
                if a is None:
                    nfa.add(s, self.core[name2], f)
                else:
                    nfa.add_eps(s, a)
                    nfa.add_eps(b, f)
            elif t in self.core:
                nfa.add(s, self.core[t], f)
            else:
                a, b = self.build(nfa, t, stack + (name,))
                nfa.add_eps(s, a)
                nfa.add_eps(b, f)
            return s, f

        r = alt()
        if pos[0] != len(toks):
            raise ValueError("ABNF parse error in %s at %s" % (name, toks[pos[0]:pos[0] + 3]))
        return r


# ------------------------------------------------------------------------------------------------ documented grammar
TERM_CLASSES = {"ALPHA": ALPHA, "DIGIT": DIGIT, "HEXDIG": HEXDIG, "subDelims": SUBDELIMS, "unreserved": UNRESERVED}


def read_code_grammar(repo):
    src = open(os.path.join(repo, "src", "UriParse.c")).read()
    prods = {}
    order = []
    for m in re.finditer(r"^ \* \[([A-Za-z0-9]+)\]->(.*)$", src, re.M):
        lhs, rhs = m.group(1), m.group(2)
        rhs = rhs.split("//")[0].strip() if not rhs.startswith("<") or True else rhs
        rhs = re.sub(r"\s*//.*$", "", m.group(2)).strip()
        items = []
        i = 0
        ok = True
        while i < len(rhs):
            if rhs[i] == "<":
                j = rhs.index(">", i + 2) if rhs[i + 1] == ">" else rhs.index(">", i + 1)
                lit = rhs[i + 1:j]
                if lit == "NULL":
                    pass
                else:
                    if len(lit) != 1:
                        ok = False
                    items.append(("t", lit))
                i = j + 1
            elif rhs[i] == "[":
                j = rhs.index("]", i)
                items.append(("n", rhs[i + 1:j]))
                i = j + 1
            elif rhs[i] in " .":
                ok = False if rhs[i] == "." else ok
                i += 1
            else:
                ok = False
                i += 1
        if lhs not in prods:
            prods[lhs] = []
            order.append(lhs)
        prods[lhs].append({"items": items, "text": m.group(0).strip(" *"), "sketch": not ok})
    return prods, order


def term_set(kind, val, lhs):
    if kind == "t":
        if val == "v" and lhs in ("ipLit2", "ipFuture"):
            return {ord("v"), ord("V")}       # "The leading "v" of IPvFuture is case-insensitive" (comment in the code)
        return {ord(val)}
    return TERM_CLASSES[val]


def analyse(prods, order, ipv6_nfa_builder):
    nts = set(prods)
    is_nt = lambda k, v: k == "n" and v in nts
    # nullable / FIRST
    nullable = {a: False for a in nts}
    first = {a: set() for a in nts}
    changed = True
    while changed:
        changed = False
        for a in nts:
            for p in prods[a]:
                if p["sketch"]:
                    continue
                allnull = True
                for k, v in p["items"]:
                    if is_nt(k, v):
                        add = first[v] - first[a]
                        if add:
                            first[a] |= add
                            changed = True
                        if not nullable[v]:
                            allnull = False
                            break
                    else:
                        add = term_set(k, v, a) - first[a]
                        if add:
                            first[a] |= add
                            changed = True
                        allnull = False
                        break
                if allnull and not nullable[a]:
                    nullable[a] = True
                    changed = True
    return nullable, first


def prod_first(p, lhs, nts, nullable, first):
    s = set()
    for k, v in p["items"]:
        if k == "n" and v in nts:
            s |= first[v]
            if not nullable[v]:
                return s, False
        else:
            s |= term_set(k, v, lhs)
            return s, False
    return s, True


def build_code_nfa(prods, order, abnf):
    """regular-language construction: levels by non-tail calls, right-linear system inside a level"""
    nts = set(prods)
    bad = []
    # non-tail call graph must be acyclic; tail calls may form cycles
    nontail = {a: set() for a in nts}
    tail = {a: set() for a in nts}
    for a in nts:
        for p in prods[a]:
            its = p["items"]
            for idx, (k, v) in enumerate(its):
                if k == "n" and v in nts:
                    (tail if idx == len(its) - 1 else nontail)[a].add(v)
    # reachability through any call
    reach = {a: set(nontail[a] | tail[a]) for a in nts}
    ch = True
    while ch:
        ch = False
        for a in nts:
            for b in list(reach[a]):
                add = reach[b] - reach[a]
                if add:
                    reach[a] |= add
                    ch = True
    for a in nts:
        for b in nontail[a]:
            if a in reach[b] or a == b:
                bad.append("rule [%s] calls [%s] in non-tail position and [%s] can reach [%s] again: recursion is not a tail call" % (a, b, b, a))
    if bad:
        return None, None, None, bad
    memo = {}

    def nfa_of(nfa, a):
        """returns (start, final) of a fresh copy of the automaton of rule a"""
        scc = {a} | {b for b in reach[a] if a in reach[b]}
        st = {b: nfa.new() for b in scc}
        fin = nfa.new()
        for b in scc:
            for p in prods[b]:
                if p["sketch"]:
                    if b == "IPv6address2":
                        x, y = abnf.build(nfa, "IPv6address")
                        z = nfa.new()
                        nfa.add(y, {ord("]")}, z)
                        nfa.add_eps(st[b], x)
                        nfa.add_eps(z, fin)
                        continue
                    raise ValueError("production not understood: " + p["text"])
                cur = st[b]
                its = p["items"]
                closed = False
                for idx, (k, v) in enumerate(its):
                    if k == "n" and v in nts:
                        if v in scc:
                            if idx != len(its) - 1:
                                raise ValueError("non-tail call inside a recursion class")
                            nfa.add_eps(cur, st[v])
                            closed = True
                        else:
                            x, y = nfa_of(nfa, v)
                            nfa.add_eps(cur, x)
                            cur = y
                    else:
                        nxt = nfa.new()
                        nfa.add(cur, term_set(k, v, b), nxt)
                        cur = nxt
                if not closed:
                    nfa.add_eps(cur, fin)
        return st[a], fin
    nfa = NFA()
    s, f = nfa_of(nfa, "uriReference")
    return nfa, s, f, []


def main():
    mode = sys.argv[1] if len(sys.argv) > 1 else "check"
    repo = sys.argv[2] if len(sys.argv) > 2 else "/repo"
    abnf = Abnf(open(os.path.join(repo, "doc", "rfc3986_grammar_only.txt")).read())
    prods, order = read_code_grammar(repo)
    nts = set(prods)
    nullable, first = analyse(prods, order, None)
    if mode == "table":
        table = {}
        for a in order:
            rows = []
            for p in prods[a]:
                if p["sketch"]:
                    rows.append({"text": p["text"], "sketch": True})
                    continue
                fs, eps = prod_first(p, a, nts, nullable, first)
                rows.append({"text": p["text"], "items": p["items"], "first": sorted(fs), "nullable": eps})
            table[a] = rows
        json.dump({"order": order, "table": table, "nullable": nullable}, sys.stdout, indent=1)
        return 0
    bad = []
    # LL(1): FIRST sets of the productions of one rule are pairwise disjoint, at most one nullable production
    for a in order:
        seen = {}
        neps = 0
        for p in prods[a]:
            if p["sketch"]:
                continue
            fs, eps = prod_first(p, a, nts, nullable, first)
            neps += 1 if eps else 0
            for c in fs:
                if c in seen and not eps and not seen[c][1]:
                    bad.append("rule [%s] is not LL(1): %r starts both `%s` and `%s`" % (a, chr(c), seen[c][0], p["text"]))
                seen.setdefault(c, (p["text"], eps))
        if neps > 1:
            bad.append("rule [%s] has more than one nullable production" % a)
    nfaC, sC, fC, b2 = build_code_nfa(prods, order, abnf)
    bad += b2
    if nfaC is None:
        for b in bad:
            print("V:post " + b)
        return 1
    nfaR = NFA()
    sR, fR = abnf.build(nfaR, "URI-reference")
    # common character classes: union of both label sets
    both = NFA()
    both.tr = {("C", k): v for k, v in nfaC.tr.items()}
    both.tr.update({("R", k): v for k, v in nfaR.tr.items()})
    classes = classes_of(both)
    tC, aC = determinize(nfaC, sC, fC, classes)
    tR, aR = determinize(nfaR, sR, fR, classes)
    _, _, _, nblocksR, liveR = minimize(tR, aR, len(classes))
    _, _, _, nblocksC, liveC = minimize(tC, aC, len(classes))
    eq, word, inC = equivalent(tC, aC, tR, aR, len(classes), classes)
    print("documented grammar: %d rules, %d productions; character classes: %d" % (len(order), sum(len(v) for v in prods.values()), len(classes)))
    print("minimal DFA of RFC 3986 URI-reference: %d live states (+1 dead); of the documented grammar: %d live states" % (liveR, liveC))
    if not eq:
        bad.append("language of the documented grammar differs from RFC 3986 URI-reference: %r is accepted by %s only"
                   % (word.decode("latin-1"), "the documented grammar" if inC else "the RFC"))
    if bad:
        for b in bad:
            print("V:post " + b)
        return 1
    print("L1a ok: all recursion is tail recursion within a level; L1b ok: languages are equal; table is LL(1)")
    return 0


if __name__ == "__main__":
    try:
        sys.exit(main())
    except SystemExit:
        raise
    except Exception as e:          # tool problem: undecided, never a violation
        import traceback
        traceback.print_exc()
        sys.exit(2)
