/* spec_escape.h - percent-escaping and unescaping of a short string (specification side, from RFC 3986 2.1/2.3 and the
 * statement of C16).  Loops bounded by SE_L (input) / 6*SE_L (output). */
#ifndef SPEC_ESCAPE_H
#define SPEC_ESCAPE_H
#ifndef SE_L
# define SE_L 3
#endif
#define SE_OUT (6 * SE_L + 1)
static int se_unres(long c) { return (c >= 'a' && c <= 'z') || (c >= 'A' && c <= 'Z') || (c >= '0' && c <= '9') || c == '-' || c == '.' || c == '_' || c == '~'; }
static int se_hex(long c) { if (c >= '0' && c <= '9') return (int)(c - '0'); if (c >= 'a' && c <= 'f') return (int)(c - 'a' + 10); if (c >= 'A' && c <= 'F') return (int)(c - 'A' + 10); return -1; }
static URI_CHAR se_hexup(int v) { return (URI_CHAR)(v < 10 ? '0' + v : 'A' + (v - 10)); }
static int se_put(URI_CHAR *out, int n, URI_CHAR c) { if (n < SE_OUT) out[n] = c; return n + 1; }
static int se_put3(URI_CHAR *out, int n, int code) { n = se_put(out, n, _UT('%')); n = se_put(out, n, se_hexup((code >> 4) & 15)); return se_put(out, n, se_hexup(code & 15)); }

/* escape in[0..n): unreserved as is; space as '+' (if requested) or %20; every other character as %XX with upper-case
 * hex digits of its low 8 bits; with break normalization every line break (CR, LF or CR LF) as %0D%0A */
static int spec_escape(URI_CHAR *out, const URI_CHAR *in, int n, int spaceToPlus, int normalizeBreaks) {
	int i, o = 0, prevCr = 0;
	for (i = 0; i < SE_L; i++) if (i < n) {
		URI_CHAR c = in[i];
		if (se_unres(c)) { o = se_put(out, o, c); prevCr = 0; }
		else if (c == _UT(' ')) { if (spaceToPlus) o = se_put(out, o, _UT('+')); else o = se_put3(out, o, 0x20); prevCr = 0; }
		else if (c == 10) { if (normalizeBreaks) { if (!prevCr) { o = se_put3(out, o, 13); o = se_put3(out, o, 10); } } else o = se_put3(out, o, 10); prevCr = 0; }
		else if (c == 13) { if (normalizeBreaks) { o = se_put3(out, o, 13); o = se_put3(out, o, 10); } else o = se_put3(out, o, 13); prevCr = 1; }
		else { o = se_put3(out, o, (int)((unsigned char)c)); prevCr = 0; }
	}
	return o;
}
/* line-break canonicalisation of the original: what unescape(escape(s)) gives back under break normalization */
static int spec_crlf(URI_CHAR *out, const URI_CHAR *in, int n) {
	int i, o = 0, prevCr = 0;
	for (i = 0; i < SE_L; i++) if (i < n) {
		URI_CHAR c = in[i];
		if (c == 13) { o = se_put(out, o, 13); o = se_put(out, o, 10); prevCr = 1; }
		else if (c == 10) { if (!prevCr) { o = se_put(out, o, 13); o = se_put(out, o, 10); } prevCr = 0; }
		else { o = se_put(out, o, c); prevCr = 0; }
	}
	return o;
}
/* unescape in[0..n) (n <= SE_UN): every well-formed %XX (either hex case) decoded, malformed '%' untouched, '+' as
 * space if requested; a decoded line break is converted as requested: mode 0 -> LF, 1 -> CR LF, 2 -> CR, 3 untouched
 * (CR LF decoded from %0D%0A counts as one break) */
#ifndef SE_UN
# define SE_UN SE_L
#endif
static int spec_unescape(URI_CHAR *out, const URI_CHAR *in, int n, int plusToSpace, int mode) {
	int i = 0, o = 0, k, prevCr = 0;
	for (k = 0; k < SE_UN; k++) if (i < n) {
		URI_CHAR c = in[i];
		if (c == _UT('%') && i + 2 < n + 0 + 1 - 0 && i + 2 <= n - 1 + 0 && se_hex(in[i + 1]) >= 0 && se_hex(in[i + 2]) >= 0) {
			int code = 16 * se_hex(in[i + 1]) + se_hex(in[i + 2]);
			if (code == 10) {
				if (mode == 3) out[o++] = 10;
				else if (!prevCr) { if (mode == 0) out[o++] = 10; else if (mode == 1) { out[o++] = 13; out[o++] = 10; } else out[o++] = 13; }
				prevCr = 0;
			} else if (code == 13) {
				if (mode == 0) out[o++] = 10; else if (mode == 1) { out[o++] = 13; out[o++] = 10; } else out[o++] = 13;
				prevCr = 1;
			} else { out[o++] = (URI_CHAR)code; prevCr = 0; }
			i += 3;
		} else {
			out[o++] = (plusToSpace && c == _UT('+')) ? _UT(' ') : c; prevCr = 0; i += 1;
		}
	}
	return o;
}
#endif
