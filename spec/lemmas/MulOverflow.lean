/-
Lemma `mul_overflow_check` (used by the contracts of uriEmulateCalloc / uriEmulateReallocarray, property C15).

The C code computes  total = (n * s) mod 2^64  and refuses the request iff  n ≠ 0 ∧ total / n ≠ s.
The contracts restate that test verbatim (SPEC_MUL_OVERFLOWS); this lemma shows that for 64-bit operands the test
is exactly "the mathematical product does not fit into size_t".
-/
theorem mul_overflow_check (n s : Nat) (hn : n < 2^64) (_hs : s < 2^64) :
    (n ≠ 0 ∧ ((n * s) % 2^64) / n ≠ s) ↔ 2^64 ≤ n * s := by
  constructor
  · intro ⟨hn0, hne⟩
    cases Nat.lt_or_ge (n * s) (2^64) with
    | inr h => exact h
    | inl hlt' =>
      rw [Nat.mod_eq_of_lt hlt'] at hne
      exact absurd (Nat.mul_div_cancel_left s (Nat.pos_of_ne_zero hn0)) hne
  · intro hge
    have hn0 : n ≠ 0 := by
      intro h; subst h; simp at hge
    refine ⟨hn0, ?_⟩
    intro heq
    have hpos : 0 < n := Nat.pos_of_ne_zero hn0
    have hmodlt : (n * s) % 2^64 < n * s := by
      have : (n * s) % 2^64 < 2^64 := Nat.mod_lt _ (by decide)
      omega
    have h1 : n * (((n * s) % 2^64) / n) ≤ (n * s) % 2^64 := Nat.mul_div_le _ _
    rw [heq] at h1
    omega
