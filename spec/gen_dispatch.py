#!/usr/bin/env python3
"""gen_dispatch.py <repo> <RuleFunction> <outdir>

Generates, from the LL(1) table that grammar_tool.py extracts from the production comments of /repo's *current*
src/UriParse.c, the dispatch contract of one rule function (DESIGN 3.3): for every lookahead character (a symbolic
URI_CHAR) and for end of input, WHICH rule functions are called, in which order, with which position argument, and what
is returned / which syntax error position is recorded.  Written to <outdir>/dispatch_current.h, which the harness
harness/d_dispatch.c includes in front of contracts/UriParse.contracts.h.

Positions are offsets (in characters) into the input object g_in; CH(o) is g_in[o].  T0 is the length of the ghost call
trace at entry; every callee's logging interface contract appends (rule id, argument, result).
"""
import json, os, subprocess, sys

HERE = os.path.dirname(os.path.abspath(__file__))
TERM = {"ALPHA", "DIGIT", "HEXDIG", "subDelims", "unreserved"}


def fname(nt):
    return "Parse" + nt[0].upper() + nt[1:]


def cset(chars):
    """C expression: c_ is in the set"""
    chars = sorted(chars)
    runs = []
    i = 0
    while i < len(chars):
        j = i
        while j + 1 < len(chars) and chars[j + 1] == chars[j] + 1:
            j += 1
        runs.append((chars[i], chars[j]))
        i = j + 1
    parts = []
    for a, b in runs:
        parts.append("(c_) == %d" % a if a == b else "((c_) >= %d && (c_) <= %d)" % (a, b))
    return "(" + " || ".join(parts) + ")" if parts else "0"


def main():
    repo, func, outdir = sys.argv[1], sys.argv[2], sys.argv[3]
    r = subprocess.run([sys.executable, os.path.join(HERE, "grammar_tool.py"), "table", repo], capture_output=True, text=True)
    if r.returncode != 0:
        sys.stderr.write(r.stdout + r.stderr)
        sys.exit(2)
    T = json.loads(r.stdout)
    table, order, nullable = T["table"], T["order"], T["nullable"]
    nts = set(order)
    by_func = {fname(a): a for a in order}
    if func not in by_func:
        sys.stderr.write("no production comments for %s\n" % func)
        sys.exit(2)
    rule = by_func[func]
    ids = {a: i + 1 for i, a in enumerate(order)}
    sets = []          # (macro name, chars)

    def setmacro(chars):
        key = tuple(sorted(chars))
        for n, k in sets:
            if k == key:
                return n
        n = "DSET_%d" % len(sets)
        sets.append((n, key))
        return n

    import importlib.util
    spec = importlib.util.spec_from_file_location("gt", os.path.join(HERE, "grammar_tool.py"))
    gt = importlib.util.module_from_spec(spec)
    spec.loader.exec_module(gt)

    def tset(k, v):
        return gt.term_set(k, v, rule)

    def gen(items, pos, t):
        if not items:
            return "(D_RET_IS(%s) && g_tr_n == T0_ + %d)" % (pos, t)
        (k, v), rest = items[0], items[1:]
        if k == "n" and v in nts:
            e = "T0_ + %d" % t
            inner_null = "(D_RET_NULL && g_tr_n == T0_ + %d)" % (t + 1)
            inner_ok = gen(rest, "D_OFF(g_tr_ret[%s])" % e, t + 1)
            return ("(g_tr_n > %s && g_tr_rule[%s] == %d && D_OFF(g_tr_first[%s]) == (%s) && (g_tr_ret[%s] == NULL ? %s : %s))"
                    % (e, e, ids[v], e, pos, e, inner_null, inner_ok))
        m = setmacro(tset(k, v))
        return ("(((%s) >= D_END) ? D_FAILS_AT(D_END, %d) : (%s(D_CH(%s)) ? %s : D_FAILS_AT(%s, %d)))"
                % (pos, t, m, pos, gen(rest, "(%s) + 1" % pos, t), pos, t))

    # the IPv6 scanner is only sketched in the comments; what selects it is taken from the code's dispatch in [ipLit2]:
    # HEXDIG and ':' (FIRST of the RFC's IPv6address) and ']' (an empty literal: the scanner reports the error itself)
    for a in order:
        for p in table[a]:
            if p.get("sketch"):
                continue
            its = p["items"]
            if its and its[0][0] == "n" and its[0][1] == "IPv6address2":
                p["first"] = sorted(set(gt.HEXDIG) | {ord(":"), ord("]")})
    rows = [p for p in table[rule] if not p.get("sketch")]
    if len(rows) != len(table[rule]):
        sys.stderr.write("rule %s has a sketched production; no dispatch contract\n" % rule)
        sys.exit(2)
    eps_row = [p for p in rows if p["nullable"]]
    other = [p for p in rows if not p["nullable"]]
    # behaviour when no non-nullable production is selected
    if eps_row:
        default = gen([tuple(x) for x in eps_row[0]["items"]], "D_F0", 0)
        at_end = "(D_RET_IS(D_END) && g_tr_n == T0_)"          # the code returns afterLast without calling anything
        default_first = set(eps_row[0]["first"])
    else:
        default = "D_FAILS_AT(D_F0, 0)"
        at_end = "D_FAILS_AT(D_END, 0)"
        default_first = set()
    expr = default
    unconditional = (len(rows) == 1 and rows[0]["items"] and rows[0]["items"][0][0] == "n" and rows[0]["items"][0][1] in nts)
    for p in reversed(other):
        items = [tuple(x) for x in p["items"]]
        fs = set(p["first"])
        m = setmacro(fs)
        # the first item decides; gen() re-tests a leading terminal, which is harmless
        expr = "(%s(D_CH(D_F0)) ? %s : %s)" % (m, gen(items, "D_F0", 0), expr)
    full = "((D_F0 >= D_END) ? %s : %s)" % (at_end, expr)
    if unconditional:
        # a rule with a single production that starts with a rule call: the code calls it without looking at the input
        full = gen([tuple(x) for x in rows[0]["items"]], "D_F0", 0)
    extra = {"ParsePctEncoded": "(P_OFF(first) >= P_OFF(afterLast) || *first == _UT('%'))",
             "ParseIpFuture": "(P_OFF(first) >= P_OFF(afterLast) || *first == _UT('v') || *first == _UT('V'))"}
    sig4 = func not in ("ParseAuthorityTwo", "ParseHexZero", "ParsePort")
    out = []
    out.append("/* GENERATED by spec/gen_dispatch.py from the production comments of src/UriParse.c - do not edit */")
    out.append("#ifndef DISPATCH_CURRENT_H\n#define DISPATCH_CURRENT_H")
    out.append("#define P_DISPATCH_FUNC %s" % func)
    out.append("#define P_DISPATCH_ID %d" % ids[rule])
    out.append("#define P_DISPATCH_HAS_MEMORY %d" % (1 if sig4 else 0))
    out.append("/* productions:\n" + "\n".join("   " + p["text"] for p in table[rule]) + " */")
    for a in order:
        out.append("#define P_ID_%s %d" % (fname(a), ids[a]))
    for n, k in sets:
        out.append("#define %s(c_) %s" % (n, cset(k)))
    out.append("#define P_DISPATCH_FORMULA \\\n\t" + full)
    out.append("#define P_DISPATCH_EXTRA_REQ __CPROVER_requires(%s)" % extra.get(func, "1"))
    out.append("#define P_DISPATCH_M M_%s\n#define P_DISPATCH_MI MI_%s\n#define P_DISPATCH_MP MP_%s" % (func, func, func))
    out.append("#define P_DECL_%s P_DISPATCH_DECL" % func)
    out.append("#endif")
    os.makedirs(outdir, exist_ok=True)
    open(os.path.join(outdir, "dispatch_current.h"), "w").write("\n".join(out) + "\n")
    print("dispatch contract for %s: %d productions, %d character sets" % (func, len(rows), len(sets)))


main()
