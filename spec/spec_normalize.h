/* spec_normalize.h - RFC 3986 section 6.2.2 syntax-based normal form of a component (specification side).
 * Written from the RFC and the statement of C08.  Pure C, loops bounded by VL. */
#ifndef SPEC_NORMALIZE_H
#define SPEC_NORMALIZE_H
#include "spec_path.h"

static int sn_is_unreserved(long c) {
	return (c >= 'a' && c <= 'z') || (c >= 'A' && c <= 'Z') || (c >= '0' && c <= '9') || c == '-' || c == '.' || c == '_' || c == '~';
}
static int sn_hexval(long c) {
	if (c >= '0' && c <= '9') return (int)(c - '0');
	if (c >= 'a' && c <= 'f') return (int)(c - 'a' + 10);
	if (c >= 'A' && c <= 'F') return (int)(c - 'A' + 10);
	return -1;
}
static URI_CHAR sn_hexup(int v) { return (URI_CHAR)(v < 10 ? '0' + v : 'A' + (v - 10)); }
static URI_CHAR sn_lower(URI_CHAR c) { return (c >= _UT('A') && c <= _UT('Z')) ? (URI_CHAR)(c + (_UT('a') - _UT('A'))) : c; }

#define sn_buf sv_txt   /* same representation */

/* every '%' is followed by two hex digits (what the parser guarantees for every component) */
static int sn_pct_legal(const struct sv_txt *t) {
	int i;
	for (i = 0; i < VL; i++) if (i < t->len && t->c[i] == _UT('%')) {
		if (i + 2 >= t->len) return 0;
		if (sn_hexval(t->c[i + 1]) < 0 || sn_hexval(t->c[i + 2]) < 0) return 0;
	}
	return 1;
}

/* 6.2.2.1 + 6.2.2.2: hex digits of percent-encodings in upper case, percent-encoded unreserved characters decoded;
 * lowerRest: additionally lower-case every character that is not part of a percent-encoding (scheme, host) */
static void spec_norm_text(struct sn_buf *out, const struct sv_txt *in, int fixPct, int lowerRest) {
	int i = 0, n = 0, k;
	*out = sv_empty();
	if (in->len < 0) { out->len = -1; return; }
	for (k = 0; k < VL; k++) {
		if (i < in->len) {
			URI_CHAR c = in->c[i];
			if (fixPct && c == _UT('%') && i + 2 < in->len && sn_hexval(in->c[i + 1]) >= 0 && sn_hexval(in->c[i + 2]) >= 0) {
				int code = 16 * sn_hexval(in->c[i + 1]) + sn_hexval(in->c[i + 2]);
				if (sn_is_unreserved(code)) {
					out->c[n++] = lowerRest ? sn_lower((URI_CHAR)code) : (URI_CHAR)code;
				} else {
					out->c[n++] = _UT('%'); out->c[n++] = sn_hexup(code >> 4); out->c[n++] = sn_hexup(code & 15);
				}
				i += 3;
			} else {
				out->c[n++] = lowerRest ? sn_lower(c) : c;
				i += 1;
			}
		}
	}
	out->len = n;
}
static struct sv_txt sn_txt(const struct sn_buf *b) { return *b; }

/* 6.2.2.3 path segment normalization of a whole view: percent-encoding per segment, then dot-segment removal that
 * keeps only the leading ".." run of a relative-path reference (no scheme, no authority, path not rooted).
 * A relative-path reference whose first remaining segment contains ':' keeps/gets a leading "." segment, otherwise the
 * text would be read back with a scheme. */
static int sn_is_relpath_ref(const struct sv_view *v) { return (v->scheme.len < 0) && (v->hostkind == VU_HK_NONE) && !v->path.rooted; }
static void spec_norm_path(struct sv_path *out, struct sn_buf store[SV_MAXSEG], const struct sv_view *v) {
	struct sv_path fixed = v->path;
	int i, relative = sn_is_relpath_ref(v);
	for (i = 0; i < SV_MAXSEG; i++) if (i < fixed.n) {
		spec_norm_text(&store[i], &v->path.seg[i], 1, 0);
		fixed.seg[i] = sn_txt(&store[i]);
	}
	spec_remove_dots(out, &fixed, relative);
	if (relative && out->n > 0 && out->n < SV_MAXSEG && sv_contains(&out->seg[0], _UT(':'))) {
		for (i = SV_MAXSEG - 1; i > 0; i--) out->seg[i] = out->seg[i - 1];
		out->seg[0] = sv_dot_txt(); out->n++;
	}
}
/* path text is empty */
static int sv_path_empty(const struct sv_path *p) { return !p->rooted && (p->n == 0 || (p->n == 1 && p->seg[0].len == 0)); }
#endif
