/* spec_recompose.h - RFC 3986 section 5.3 recomposition of a view into text (specification side, written from the RFC
 * and the property statements C04/C05).  IPv4: decimal octets; IPv6: eight groups of four lower-case hex digits. */
#ifndef SPEC_RECOMPOSE_H
#define SPEC_RECOMPOSE_H
#include "vuri.h"
#define SR_MAX (6 * VL + VM * (VL + 1) + 41 + 12)

static int sr_put(URI_CHAR *out, int n, URI_CHAR c) { if (n < SR_MAX) out[n] = c; return n + 1; }
static int sr_rng(URI_CHAR *out, int n, const struct vu_rng *r, const URI_CHAR *pool) {
	int i; for (i = 0; i < VL; i++) if (i < r->len) n = sr_put(out, n, pool[r->off + i]); return n;
}
static URI_CHAR sr_hex(unsigned v) { return (URI_CHAR)(v < 10 ? _UT('0') + v : _UT('a') + (v - 10)); }

/* writes the text into out[0..SR_MAX) and returns its length */
static int spec_recompose(URI_CHAR *out, const struct vu_shape *s, const URI_CHAR *pool) {
	int n = 0, i;
	if (s->scheme.len >= 0) { n = sr_rng(out, n, &s->scheme, pool); n = sr_put(out, n, _UT(':')); }
	if (s->hostkind != VU_HK_NONE) {
		n = sr_put(out, n, _UT('/')); n = sr_put(out, n, _UT('/'));
		if (s->userInfo.len >= 0) { n = sr_rng(out, n, &s->userInfo, pool); n = sr_put(out, n, _UT('@')); }
		if (s->hostkind == VU_HK_IP4) {
			for (i = 0; i < 4; i++) {
				unsigned v = s->ip[i];
				if (v > 99) n = sr_put(out, n, (URI_CHAR)(_UT('0') + v / 100));
				if (v > 9) n = sr_put(out, n, (URI_CHAR)(_UT('0') + (v / 10) % 10));
				n = sr_put(out, n, (URI_CHAR)(_UT('0') + v % 10));
				if (i < 3) n = sr_put(out, n, _UT('.'));
			}
		} else if (s->hostkind == VU_HK_IP6) {
			n = sr_put(out, n, _UT('['));
			for (i = 0; i < 16; i++) {
				n = sr_put(out, n, sr_hex(s->ip[i] >> 4)); n = sr_put(out, n, sr_hex(s->ip[i] & 15));
				if ((i & 1) && i < 15) n = sr_put(out, n, _UT(':'));
			}
			n = sr_put(out, n, _UT(']'));
		} else if (s->hostkind == VU_HK_FUT) {
			n = sr_put(out, n, _UT('[')); n = sr_rng(out, n, &s->hostText, pool); n = sr_put(out, n, _UT(']'));
		} else {
			n = sr_rng(out, n, &s->hostText, pool);
		}
		if (s->port.len >= 0) { n = sr_put(out, n, _UT(':')); n = sr_rng(out, n, &s->port, pool); }
	}
	if (s->absolutePath || (s->nseg > 0 && s->hostkind != VU_HK_NONE)) n = sr_put(out, n, _UT('/'));
	for (i = 0; i < VM; i++) if (i < s->nseg) {
		n = sr_rng(out, n, &s->seg[i], pool);
		if (i + 1 < s->nseg) n = sr_put(out, n, _UT('/'));
	}
	if (s->query.len >= 0) { n = sr_put(out, n, _UT('?')); n = sr_rng(out, n, &s->query, pool); }
	if (s->fragment.len >= 0) { n = sr_put(out, n, _UT('#')); n = sr_rng(out, n, &s->fragment, pool); }
	return n;
}
#endif
