"""Build and run one obligation; classify CBMC's per-property results."""
import json, os, re, resource, shutil, subprocess, time, hashlib
from . import stage as S

VERIF = S.VERIF

DEFAULT_CHECKS = ["--bounds-check", "--pointer-check", "--signed-overflow-check", "--pointer-overflow-check",
                  "--div-by-zero-check", "--undefined-shift-check", "--no-malloc-may-fail", "--sat-solver", "cadical"]


def _limits(mem_gb):
    def f():
        if mem_gb:   # 0/None: no address-space limit (Lean reserves far more virtual memory than it uses)
            b = int(mem_gb * (1 << 30))
            resource.setrlimit(resource.RLIMIT_AS, (b, b))
        os.setsid()
    return f


def sh(cmd, cwd, timeout, mem_gb, log):
    t0 = time.time()
    try:
        p = subprocess.Popen(cmd, cwd=cwd, stdout=subprocess.PIPE, stderr=subprocess.PIPE, preexec_fn=_limits(mem_gb))
        try:
            out, err = p.communicate(timeout=timeout)
        except subprocess.TimeoutExpired:
            try:
                os.killpg(p.pid, 9)
            except Exception:
                p.kill()
            out, err = p.communicate()
            log.append({"cmd": " ".join(cmd), "status": "timeout", "s": round(time.time() - t0, 1)})
            return None, out.decode("utf-8", "replace"), err.decode("utf-8", "replace")
    except OSError as e:
        log.append({"cmd": " ".join(cmd), "status": "oserror " + str(e)})
        return None, "", str(e)
    log.append({"cmd": " ".join(cmd), "status": p.returncode, "s": round(time.time() - t0, 1)})
    return p.returncode, out.decode("utf-8", "replace"), err.decode("utf-8", "replace")


TAG_RE = re.compile(r"^V:\w+\[([^\]]*)\]")


def tags_of(desc):
    m = TAG_RE.match(desc or "")
    if not m:
        return None
    return [t.strip() for t in m.group(1).split(",") if t.strip()]


def classify(prop):
    """map a CBMC property to an obligation class"""
    name = prop.get("property", "")
    desc = prop.get("description", "")
    d = desc.lower()
    if desc.startswith("V:post") or desc.startswith("V:"):
        if desc.startswith("V:frame"):
            return "frame"
        if desc.startswith("V:pre"):
            return "contract.pre-of-callee"
        if desc.startswith("V:bound"):
            return "unwind"
        return "contract.post"
    if desc.startswith("KF:"):
        return "known-finding"
    if desc == "assertion" and not (prop.get("sourceLocation") or {}).get("line"):
        # CBMC 6.11's non-DFCC loop-contract pass emits its base / step / decreases checks without a comment or a line
        return "loop.contract"
    if "unwinding assertion" in d or ".unwind." in name or "recursion unwinding" in d:
        return "unwind"
    if "loop invariant" in d and ("base" in d or "before entry" in d):
        return "loop.base"
    if "loop invariant" in d and ("step" in d or "preserved" in d):
        return "loop.step"
    if "decreases" in d or "loop variant" in d:
        return "loop.decreases"
    if "is assignable" in d or "assigns" in d or "is freeable" in d or "frees" in d:
        return "frame"
    if "postcondition" in name or "ensures" in d or "post-condition" in d:
        return "contract.post"
    if "precondition" in name or "requires" in d or "pre-condition" in d:
        return "contract.pre-of-callee"
    if "overflow" in d or "division by zero" in d or "shift" in d or "conversion" in d:
        return "arith"
    if any(w in d for w in ("dereference", "bounds", "pointer", "free", "deallocated", "dead object", "memory leak",
                            "r_ok", "w_ok", "same object", "is_fresh", "no candidates")):
        return "mem"
    return "other"


def val_to_py(v):
    """CBMC json value -> python (ints, lists, dicts)"""
    if v is None:
        return None
    if "elements" in v:
        return [val_to_py(e["value"]) for e in v["elements"]]
    if "members" in v:
        return {m["name"]: val_to_py(m["value"]) for m in v["members"]}
    if "binary" in v and v.get("name") in ("integer", "boolean"):
        b = v["binary"]
        n = int(b, 2)
        t = v.get("type", "")
        signed = v.get("name") == "integer" and not t.startswith("unsigned") and "size_t" not in t and t != "_Bool"
        if signed and len(b) > 1 and b[0] == "1":
            n -= 1 << len(b)
        return n
    return v.get("data")


def extract_inputs(trace, entry, harness=None):
    """last value assigned to each variable of the harness entry function (the ND()/ND_ARR() inputs are among them;
    the native replayer looks inputs up by name and ignores the rest).  Inputs that the entry function does not declare
    itself (a harness whose entries share one body function) are then taken from the other functions of the harness file."""
    vals = _extract_inputs(trace, lambda sl: sl.get("function") == entry)
    if harness:
        hb = os.path.basename(harness)
        want = set(harness_inputs(harness)) - set(vals)
        if want:
            more = _extract_inputs(trace, lambda sl: os.path.basename(sl.get("file") or "") == hb and sl.get("function") != entry)
            for k in want:
                if k in more:
                    vals[k] = more[k]
    return vals


def _extract_inputs(trace, in_scope):
    vals = {}
    for st in trace:
        if st.get("stepType") != "assignment":
            continue
        sl = st.get("sourceLocation") or {}
        if not in_scope(sl) or st.get("assignmentType") == "actual-parameter":
            continue            # (parameters of callees are assigned at the call site and may share a name with an input)
        lhs = st.get("lhs", "")
        if "$" in lhs or lhs.startswith("return_value") or lhs.startswith("goto_symex"):
            continue
        base = re.split(r"[\[.]", lhs, 1)[0]
        if lhs == base:
            v = val_to_py(st.get("value"))
            if isinstance(v, (int, list)):
                vals[base] = v
        else:
            m = re.fullmatch(re.escape(base) + r"\[(\d+)l?\]", lhs)
            if m and isinstance(vals.get(base), list):
                i = int(m.group(1))
                if i < len(vals[base]):
                    vals[base][i] = val_to_py(st.get("value"))
    return {k: v for k, v in vals.items() if isinstance(v, int) or (isinstance(v, list) and all(isinstance(x, int) for x in v))}


ND_RE = re.compile(r"\bND(?:_ARR)?\s*\(\s*([^,()]+?)\s*,\s*(\w+)\s*(?:,\s*([^)]+))?\)")


def harness_inputs(path, seen=None):
    """names (and element types) declared with ND()/ND_ARR() in a harness file and the local headers it includes"""
    seen = seen if seen is not None else set()
    res = {}
    if path in seen or not os.path.exists(path):
        return res
    seen.add(path)
    txt = open(path).read()
    for m in ND_RE.finditer(txt):
        res[m.group(2)] = m.group(1)
    for inc in re.findall(r'#\s*include\s+"([^"]+)"', txt):
        for d in (os.path.dirname(path), os.path.join(VERIF, "harness"), os.path.join(VERIF, "spec"),
                  os.path.join(VERIF, "contracts")):
            q = os.path.join(d, inc)
            if os.path.exists(q):
                res.update(harness_inputs(q, seen))
                break
    return res


def variant_dir(scratch, ob):
    """return the staged source variant this obligation needs, creating it on demand"""
    loops = tuple(ob.get("loops", ()))
    renames = tuple(ob.get("rename_selfcalls", ()))
    only = tuple(ob.get("loops_only", ()))
    wide = ob.get("char", "A") == "W" and ob.get("route") != "L"
    watch = tuple(ob.get("watch", ()))
    key = hashlib.sha1(repr((loops, renames, only, wide, watch)).encode()).hexdigest()[:10]
    d = os.path.join(scratch, "v_" + key)
    marker = os.path.join(d, ".done")
    if os.path.exists(marker):
        return d, json.load(open(marker))
    lock = d + ".lock"
    failed = d + ".failed"
    try:
        os.mkdir(lock)
    except FileExistsError:
        while not os.path.exists(marker):
            time.sleep(0.1)
            if os.path.exists(failed):      # the thread that was staging this variant gave up: same verdict for everybody
                raise S.StageError(open(failed).read())
            if not os.path.exists(lock) and not os.path.exists(marker):
                break
        if os.path.exists(marker):
            return d, json.load(open(marker))
    try:
        return _make_variant(scratch, ob, d, marker, lock, key, loops, renames, only, wide, watch)
    except Exception as e:
        open(failed, "w").write("staging of variant %s failed: %s" % (key, e))
        raise


def _make_variant(scratch, ob, d, marker, lock, key, loops, renames, only, wide, watch):
    tmp = os.path.join(scratch, "t_" + key)
    shutil.rmtree(tmp, ignore_errors=True)
    shutil.copytree(os.path.join(scratch, "clean"), tmp)
    injected = S.inject_loops(tmp, loops, only_funcs=set(only) if only else None) if loops else []
    for fname, funcs in renames:
        n = S.rename_selfcalls(tmp, fname, funcs)
        injected.append("%s: %d self-calls redirected to twin" % (fname, n))
    if watch:
        injected.extend(S.inject_watch(tmp, watch))
    injected.extend(S.inject_waivers(tmp))
    if wide:
        n = S.rewrite_wide_literals(tmp)
        injected.append("W pass: %d wide string literals rewritten to array compound literals (CBMC wide-literal size bug)" % n)
    S.verify_undo(tmp)
    shutil.move(tmp, d)
    with open(marker + ".tmp", "w") as fh_:      # atomically: a waiting thread must never see an empty marker file
        json.dump(injected, fh_)
    os.rename(marker + ".tmp", marker)
    os.rmdir(lock)
    return d, injected


def expand_unwindset(uw, wd, log):
    """keys of the form "func.*" give one bound for every loop CBMC finds in func (macro-generated do{}while(0)
    loops shift CBMC's loop numbers, so bounds are given per function, never globally)"""
    rc, out, err = sh(["cbmc", "--show-loops", "--json-ui", "a.gb"], wd, 120, 4, log)
    if rc is None:
        return None
    try:
        items = json.loads(out)
    except Exception:
        return None
    names = []
    for it in items:
        for l in it.get("loops", []) if isinstance(it, dict) else []:
            names.append(l["name"])
    res = {}
    for k, v in uw.items():
        if k.endswith(".*"):
            f = k[:-2]
            for n in names:
                if n.rsplit(".", 1)[0] == f:
                    res[n] = max(res.get(n, 0), v)
        else:
            res[k] = v
    return res


def resolve(v, tier):
    return v(tier) if callable(v) else v


def run_obligation(ob, scratch, tier, kf_defines, prop=None):
    """returns a result dict: status in {discharged, violated, undecided}, per-class counts, failures, timings"""
    t0 = time.time()
    res = {"id": ob["id"], "route": ob["route"], "status": "undecided", "reason": "", "classes": {}, "failures": [],
           "kf": [], "log": [], "level": resolve(ob.get("level", "B"), tier), "functions": ob.get("functions", []),
           "bounds": resolve(ob.get("bounds", ""), tier), "char": ob.get("char", "A"), "solver_s": 0.0, "backend": "",
           "n_props": 0, "n_ok": 0, "samples": [], "covers": {}, "group": ob.get("group", ob["id"])}
    wd = os.path.join(scratch, "ob_" + re.sub(r"[^\w.]", "_", ob["id"]))
    os.makedirs(wd, exist_ok=True)
    res["workdir"] = wd
    if ob["route"] == "L":   # spec-level lemma / supporting fact checked by an external tool (Lean, python3)
        cmd = [c.replace("{VERIF}", VERIF).replace("{SCRATCH}", scratch) for c in ob["cmd"]]
        rc, out, err = sh(cmd, wd, resolve(ob.get("timeout_s", 300), tier), 0, res["log"])
        res["checker_cmd"] = " ".join(cmd)
        res["n_props"] = 1
        res["backend"] = ob.get("backend", cmd[0])
        res["wall_s"] = round(time.time() - t0, 1)
        res["defines"] = {}
        txt = (out or "") + (err or "")
        if rc == 0 and "error" not in txt.lower():
            res["status"] = "discharged"
            res["n_ok"] = 1
            res["classes"] = {"lemma": {"total": 1, "ok": 1}}
            res["samples"] = [{"obligation": ob["id"], "class": "lemma", "description": ob.get("group", ""), "output": txt[-300:]}]
        elif rc is None:
            res["reason"] = "lemma checker timed out"
        elif rc == 1 and ob.get("rc1_is_violation"):
            res["status"] = "violated"
            res["classes"] = {"lemma": {"total": 1, "ok": 0}}
            res["failures"] = [{"property": ob["id"], "description": "V:post " + ob.get("group", ob["id"]) + ": " + txt[-600:],
                                "class": "contract.post", "status": "FAILURE", "location": ob["cmd"][-1], "trace_tail": txt.splitlines()[-30:]}]
        else:
            res["reason"] = "lemma checker failed (rc=%s): %s" % (rc, txt[-600:])
        return res
    try:
        vdir, injected = variant_dir(scratch, ob)
    except S.StageError as e:
        res["reason"] = "staging: " + str(e)
        return res
    res["injected"] = injected
    defines = dict(resolve(ob.get("defines", {}), tier))
    defines["VCBMC"] = 1
    if ob.get("char", "A") == "W":
        defines["VW"] = 1
    for k in kf_defines:
        defines[k] = 1
    res["defines"] = {k: v for k, v in defines.items()}
    dflags = ["-D%s=%s" % (k, v) for k, v in sorted(defines.items())]
    inc = ["-I", os.path.join(vdir, "src"), "-I", os.path.join(vdir, "include"), "-I", os.path.join(VERIF, "contracts"),
           "-I", os.path.join(VERIF, "spec"), "-I", os.path.join(VERIF, "harness")]
    harness = os.path.join(VERIF, "harness", ob["harness"])
    entry = ob.get("entry", "harness")
    if ob.get("gen_cmd"):      # generated contract text (e.g. the dispatch contract from the production comments of the staged source)
        gcmd = [c.replace("{VERIF}", VERIF).replace("{SCRATCH}", scratch).replace("{VDIR}", vdir).replace("{WD}", wd) for c in ob["gen_cmd"]]
        rc, out, err = sh(gcmd, wd, 120, 0, res["log"])
        if rc != 0:
            res["reason"] = "contract generator failed: " + (out + err)[-600:]
            return res
        inc += ["-I", wd]
    tmo = resolve(ob.get("timeout_s", 600), tier)
    mem = resolve(ob.get("mem_gb", 8), tier)
    log = res["log"]
    rc, out, err = sh(["goto-cc"] + inc + dflags + ["--function", entry, harness, "-o", "a.gb"], wd, 120, 4, log)
    if rc != 0:
        res["reason"] = "goto-cc failed: " + (err or out)[-1500:]
        return res
    # callees replaced by contract stubs (route H): remove the real body, link the stub translation unit
    for fname, stubfile in ob.get("replace_bodies", []):
        fnames = [fname] if isinstance(fname, str) else list(fname)     # several callees may share one stub translation unit
        rmflags = []
        for f_ in fnames:
            rmflags += ["--remove-function-body", f_]
        rc, out, err = sh(["goto-instrument"] + rmflags + ["a.gb", "a_nb.gb"], wd, 120, 4, log)
        if rc != 0:
            res["reason"] = "goto-instrument --remove-function-body %s failed: %s" % (fnames, (err or out)[-600:])
            return res
        fname = fnames[0]
        sgb = "stub_%s.gb" % fname
        rc, out, err = sh(["goto-cc"] + inc + dflags + ["-c", os.path.join(VERIF, "stubs", stubfile), "-o", sgb], wd, 120, 4, log)
        if rc != 0:
            res["reason"] = "goto-cc (stub %s) failed: %s" % (stubfile, (err or out)[-600:])
            return res
        rc, out, err = sh(["goto-cc", "a_nb.gb", sgb, "--function", entry, "-o", "a.gb"], wd, 120, 4, log)
        if rc != 0:
            res["reason"] = "linking stub %s failed: %s" % (stubfile, (err or out)[-600:])
            return res
    binf = "a.gb"
    uw = resolve(ob.get("unwindset", {}), tier)
    if any(k.endswith(".*") for k in uw):
        uw = expand_unwindset(uw, wd, log)
        if uw is None:
            res["reason"] = "cbmc --show-loops failed"
            return res
        res["unwindset_expanded"] = uw
        ob = dict(ob)
        ob["unwindset"] = uw
    uwflags = []
    if uw:
        uwflags = ["--unwindset", ",".join("%s:%d" % (k, v) for k, v in sorted(uw.items()))]
    route = ob["route"]
    if route == "D":
        if ob.get("restrict_fp"):
            gi0 = ["goto-instrument"]
            for r_ in ob["restrict_fp"]:
                gi0 += ["--restrict-function-pointer", r_]
            rc, out, err = sh(gi0 + ["a.gb", "a_r.gb"], wd, 120, 4, log)
            if rc != 0:
                res["reason"] = "goto-instrument (restrict function pointers) failed: " + (err or out)[-1500:]
                return res
            shutil.move(os.path.join(wd, "a_r.gb"), os.path.join(wd, "a.gb"))
        gi = ["goto-instrument"]
        pre_uw = resolve(ob.get("pre_unwindset", {}), tier)
        if pre_uw:
            gi += ["--unwindset", ",".join("%s:%d" % (k, v) for k, v in sorted(pre_uw.items())), "--unwinding-assertions"]
        gi += ["--dfcc", entry]
        for f in ob.get("enforce", []):
            gi += ["--enforce-contract-rec" if ob.get("rec") else "--enforce-contract", f]
        no_twin = any(re.search(r": 0 self-calls redirected", x) for x in injected)
        for g in ob.get("replace", []):
            if no_twin and "__rec" in g:
                continue          # the function is not self-recursive: there is no twin to replace
            gi += ["--replace-call-with-contract", g]
        if ob.get("loops") or ob.get("apply_loop_contracts"):
            gi += ["--apply-loop-contracts"]
        gi += ["a.gb", "b.gb"]
        rc, out, err = sh(gi, wd, resolve(ob.get("gi_timeout_s", 300), tier), mem, log)
        if rc != 0:
            res["reason"] = "goto-instrument failed: " + (err or out)[-1500:]
            return res
        binf = "b.gb"
    elif route == "N":
        rc, out, err = sh(["goto-instrument", "--drop-unused-functions", "a.gb", "a1.gb"], wd, 120, 4, log)
        if rc != 0:
            res["reason"] = "goto-instrument (drop) failed: " + (err or out)[-1500:]
            return res
        rc, out, err = sh(["goto-instrument", "--apply-loop-contracts", "a1.gb", "b.gb"], wd, 300, mem, log)
        if rc != 0:
            res["reason"] = "goto-instrument (loop contracts) failed: " + (err or out)[-1500:]
            return res
        binf = "b.gb"
    flags = list(ob.get("checks", DEFAULT_CHECKS)) + list(ob.get("extra_flags", []))
    if ob.get("backend"):   # SMT back end instead of CaDiCaL (recorded in the evidence)
        i_ = flags.index("--sat-solver")
        flags[i_:i_ + 2] = ["--" + ob["backend"]]
    cmd = ["cbmc", binf, "--json-ui", "--trace"] + flags + uwflags
    if uw or ob.get("unwind_default") is not None:
        cmd += ["--unwinding-assertions"]
        if ob.get("unwind_default") is not None:
            cmd += ["--unwind", str(ob["unwind_default"])]
    if ob.get("object_bits"):
        cmd += ["--object-bits", str(ob["object_bits"])]
    res["checker_cmd"] = " ".join(cmd)
    rc, out, err = sh(cmd, wd, tmo, mem, log)
    open(os.path.join(wd, "cbmc.json"), "w").write(out)
    if rc is None:
        res["reason"] = "cbmc timeout after %ss (limit is part of the obligation record)" % tmo
        return res
    try:
        items = json.loads(out)
    except Exception:
        res["reason"] = "cbmc output not parseable (rc=%s): %s" % (rc, (out[-800:] + err[-800:]))
        return res
    results = None
    msgs = []
    for it in items:
        if "result" in it:
            results = it["result"]
        if "messageText" in it:
            msgs.append(it["messageText"])
            m = re.match(r"Runtime (decision procedure|Solver): ([0-9.]+)s", it["messageText"])
            if m:
                res["solver_s"] += float(m.group(2))
            m = re.match(r"Running (.*)", it["messageText"])
            if m:
                res["backend"] = m.group(1)
    res["messages_tail"] = msgs[-12:]
    if any("ignoring" in m and ("forall" in m or "exists" in m or "quantif" in m) for m in msgs):
        res["reason"] = "solver ignored a quantifier"
        return res
    if any(("out of memory" in m.lower()) or ("VERIFICATION ERROR" in m) for m in msgs):
        res["reason"] = "cbmc: " + " | ".join(m for m in msgs[-4:])
        return res
    if results is None:
        res["reason"] = "cbmc gave no result list (rc=%s): %s" % (rc, " | ".join(msgs[-6:]) + err[-400:])
        return res
    res["n_props"] = len(results)
    fails = []
    for p in results:
        c = classify(p)
        cc = res["classes"].setdefault(c, {"total": 0, "ok": 0})
        cc["total"] += 1
        st = p.get("status")
        if st == "SUCCESS":
            cc["ok"] += 1
            res["n_ok"] += 1
            if len(res["samples"]) < 3 and c in ("contract.post", "frame", "loop.step", "contract.pre-of-callee"):
                res["samples"].append({"obligation": ob["id"], "property": p.get("property"), "class": c,
                                       "description": p.get("description"),
                                       "location": _loc(p.get("sourceLocation"))})
        elif st != "FAILURE":
            res.setdefault("unknown", []).append("%s: %s" % (p.get("property"), st))
        else:
            f = {"property": p.get("property"), "description": p.get("description"), "class": c, "status": st,
                 "location": _loc(p.get("sourceLocation"))}
            tg = tags_of(p.get("description"))
            if tg is None:   # verifier-generated check (memory safety, arithmetic, frame, callee precondition)
                tg = ob.get("safety_props", ob["props"])
            f["tags"] = tg
            # C19 (the wchar_t API behaves like the char API): every clause of a W instance is a C19 clause - the same clause
            # holds for the A instance, so a W-only failure is a divergence whatever property the clause was written for
            if prop == "C19" and ob.get("char") == "W" and "C19" not in tg:
                tg = list(tg) + ["C19"]
                f["tags"] = tg
            if prop is not None and c not in ("unwind", "known-finding") and prop not in tg:
                res.setdefault("other_property_failures", []).append(f)
                continue
            if p.get("trace"):
                f["inputs"] = extract_inputs(p["trace"], entry, os.path.join(VERIF, "harness", ob["harness"]) if ob.get("harness") else None)
                f["trace_tail"] = _trace_tail(p["trace"])
            fails.append(f)
    kf_fail = [f for f in fails if f["class"] == "known-finding"]
    real = [f for f in fails if f["class"] != "known-finding"]
    res["kf"] = kf_fail
    res["kf_total"] = res["classes"].get("known-finding", {}).get("total", 0)
    res["failures"] = real
    minp = ob.get("min_props", 1)
    if res.get("unknown") and not real:
        res["reason"] = "cbmc left %d properties without verdict: %s" % (len(res["unknown"]), "; ".join(res["unknown"][:3]))
        res["failures"] = []
        return res
    if not real:
        if res["n_props"] < minp:
            res["reason"] = "vacuity guard: only %d obligations generated, expected >= %d" % (res["n_props"], minp)
        elif ob.get("require_classes") and any(res["classes"].get(c, {}).get("total", 0) < n
                                               for c, n in ob["require_classes"].items()):
            res["reason"] = "vacuity guard: classes %s required, got %s" % (ob["require_classes"], res["classes"])
        else:
            res["status"] = "discharged"
    else:
        if all(f["class"] == "unwind" for f in real):
            res["reason"] = "unwinding/bound assertion failed: " + "; ".join("%s (%s)" % (f["description"], f["property"]) for f in real[:4])
        else:
            res["status"] = "violated"
            res["failures"] = [f for f in real if f["class"] != "unwind"] + [f for f in real if f["class"] == "unwind"]
    res["wall_s"] = round(time.time() - t0, 1)
    return res


def _loc(sl):
    if not sl:
        return ""
    return "%s:%s:%s" % (os.path.basename(sl.get("file", "")), sl.get("function", ""), sl.get("line", ""))


def _trace_tail(trace, n=120):
    out = []
    for st in trace:
        t = st.get("stepType")
        sl = st.get("sourceLocation") or {}
        if st.get("hidden"):
            continue
        if t == "assignment":
            v = st.get("value") or {}
            out.append("%s:%s  %s = %s" % (os.path.basename(sl.get("file", "?")), sl.get("line", "?"), st.get("lhs"),
                                          v.get("data", "{...}")))
        elif t == "function-call":
            out.append("%s:%s  call %s" % (os.path.basename(sl.get("file", "?")), sl.get("line", "?"),
                                          (st.get("function") or {}).get("displayName")))
        elif t == "failure":
            out.append("%s:%s  FAILURE %s" % (os.path.basename(sl.get("file", "?")), sl.get("line", "?"), st.get("reason")))
    return out[-n:]


def run_cover(ob, scratch, tier, res):
    """vacuity guard: the harness is compiled again with -DVCOVERMODE, in which only the input-diversity markers remain,
    each as an assertion of the negated marker: every one of them must FAIL (= the marker is reachable under the
    harness's assumptions).  returns (dict marker->reachable, reason)"""
    log = res["log"]
    wd = res["workdir"]
    vdir, _ = variant_dir(scratch, ob)
    defines = dict(res["defines"])
    defines["VCOVERMODE"] = 1
    dflags = ["-D%s=%s" % (k, v) for k, v in sorted(defines.items())]
    inc = ["-I", os.path.join(vdir, "src"), "-I", os.path.join(vdir, "include"), "-I", os.path.join(VERIF, "contracts"),
           "-I", os.path.join(VERIF, "spec"), "-I", os.path.join(VERIF, "harness")]
    harness = os.path.join(VERIF, "harness", ob["harness"])
    entry = ob.get("entry", "harness")
    rc, out, err = sh(["goto-cc"] + inc + dflags + ["--function", entry, harness, "-o", "c.gb"], wd, 120, 4, log)
    if rc != 0:
        return None, "goto-cc (cover mode) failed: " + (err or out)[-600:]
    binf = "c.gb"
    if ob["route"] == "H":
        rc, out, err = sh(["goto-instrument", "--drop-unused-functions", "c.gb", "c1.gb"], wd, 120, 4, log)
        if rc == 0:
            binf = "c1.gb"
    if ob["route"] == "N":
        rc, out, err = sh(["goto-instrument", "--drop-unused-functions", "c.gb", "c1.gb"], wd, 120, 4, log)
        rc2, out, err = sh(["goto-instrument", "--apply-loop-contracts", "c1.gb", "c2.gb"], wd, 300, 8, log)
        if rc != 0 or rc2 != 0:
            return None, "goto-instrument (cover mode) failed"
        binf = "c2.gb"
    uw = resolve(ob.get("unwindset", {}), tier)
    cmd = ["cbmc", binf, "--json-ui", "--no-standard-checks", "--no-malloc-may-fail", "--sat-solver", "cadical", "--slice-formula"]
    if uw:
        cmd += ["--unwindset", ",".join("%s:%d" % (k, v) for k, v in sorted(uw.items()))]
    if ob.get("unwind_default") is not None:
        cmd += ["--unwind", str(ob["unwind_default"])]
    if ob.get("object_bits"):
        cmd += ["--object-bits", str(ob["object_bits"])]
    rc, out, err = sh(cmd, wd, resolve(ob.get("cover_timeout_s", ob.get("timeout_s", 600)), tier),
                      resolve(ob.get("mem_gb", 8), tier), log)
    if rc is None:
        return None, "cover run timed out"
    try:
        items = json.loads(out)
    except Exception:
        return None, "cover output not parseable"
    r = {}
    for it in items:
        if "result" in it:
            for p in it["result"]:
                d = p.get("description", "")
                if d.startswith("COVER:"):
                    r[d[6:]] = (p.get("status") == "FAILURE")
    return r, ""
