"""Stage /repo's working tree into a scratch directory and inject loop contracts.

What the staging does (and nothing else):
  * copies /repo/src and /repo/include verbatim,
  * generates UriConfig.h from src/UriConfig.h.in (cmake's configure_file, done by hand),
  * for every entry of loops/<File>.loops inserts  __CPROVER_assigns / __CPROVER_loop_invariant /
    __CPROVER_decreases  clauses between a loop header and its body (add-only; no run-time meaning),
  * optionally (dispatch obligations of self-recursive rule functions) renames self-calls of F inside
    F's own body to F__rec.
After injection the inverse transformation is applied and the result is compared byte for byte with
the /repo file; any difference aborts with StageError (-> exit 2, "undecided", never a violation).
"""
import os, re, shutil, tempfile

REPO = os.environ.get("VERIF_REPO", "/repo")
VERIF = os.path.dirname(os.path.dirname(os.path.abspath(__file__)))


class StageError(Exception):
    pass


def make_scratch():
    base = os.environ.get("VERIF_SCRATCH_BASE") or tempfile.gettempdir()
    return tempfile.mkdtemp(prefix="uriverif.", dir=base)


def gen_config(dst_dir):
    src = os.path.join(REPO, "src", "UriConfig.h.in")
    txt = open(src).read()
    ver = "0.0.0"
    cm = open(os.path.join(REPO, "CMakeLists.txt")).read()
    m = re.search(r"project\(\s*uriparser\s+VERSION\s+([0-9.]+)", cm, re.S)
    if m:
        ver = m.group(1)
    txt = txt.replace("@PROJECT_VERSION@", ver)
    txt = re.sub(r"#cmakedefine\s+(\w+)", r"#define \1", txt)
    open(os.path.join(dst_dir, "UriConfig.h"), "w").write(txt)


def stage(scratch):
    """copy the working tree's src/ and include/ to scratch/clean (verbatim) and scratch/inj (to be injected)"""
    for sub in ("clean",):
        d = os.path.join(scratch, sub)
        shutil.copytree(os.path.join(REPO, "src"), os.path.join(d, "src"))
        shutil.copytree(os.path.join(REPO, "include"), os.path.join(d, "include"))
        os.makedirs(os.path.join(d, "doc"))
        shutil.copy(os.path.join(REPO, "doc", "rfc3986_grammar_only.txt"), os.path.join(d, "doc"))
        gen_config(os.path.join(d, "src"))
    return scratch


# ---------------------------------------------------------------------------------------------
# tokenizer: comment-, string- and preprocessor-aware

TOK_RE = re.compile(r"""
    (?P<ws>\s+)
  | (?P<lc>//[^\n]*)
  | (?P<bc>/\*.*?\*/)
  | (?P<pp>^[ \t]*\#(?:[^\n\\]|\\.|\\\n)*)
  | (?P<str>L?"(?:[^"\\\n]|\\.)*")
  | (?P<chr>L?'(?:[^'\\\n]|\\.)*')
  | (?P<id>[A-Za-z_]\w*)
  | (?P<num>\d[\w.]*)
  | (?P<p>.)
""", re.S | re.X | re.M)


def tokenize(text):
    """returns list of (kind, value, start, end) for significant tokens only"""
    toks = []
    for m in TOK_RE.finditer(text):
        k = m.lastgroup
        if k in ("ws", "lc", "bc", "pp"):
            continue
        toks.append((k, m.group(), m.start(), m.end()))
    return toks


def find_function(text, toks, name):
    """find the definition of function `name` (given as the URI_FUNC argument or as a plain identifier).
    returns (index of '{' token, index of matching '}' token)."""
    cands = []
    n = len(toks)
    i = 0
    while i < n:
        k, v, s, e = toks[i]
        hit = None
        if k == "id" and v == name and i + 1 < n and toks[i + 1][1] == "(":
            hit = i + 1
        elif (k == "id" and v == "URI_FUNC" and i + 3 < n and toks[i + 1][1] == "(" and toks[i + 2][1] == name
              and toks[i + 3][1] == ")" and i + 4 < n and toks[i + 4][1] == "("):
            hit = i + 4
        if hit is not None:
            # skip parameter list
            j = hit
            depth = 0
            while j < n:
                if toks[j][1] == "(":
                    depth += 1
                elif toks[j][1] == ")":
                    depth -= 1
                    if depth == 0:
                        break
                j += 1
            if j + 1 < n and toks[j + 1][1] == "{":
                # make sure we are at file scope: crude test - previous significant token is not one of
                # '=' ',' '(' 'return' and brace depth is 0
                depth_b = 0
                for t in toks[:i]:
                    if t[1] == "{":
                        depth_b += 1
                    elif t[1] == "}":
                        depth_b -= 1
                if depth_b == 0:
                    # find matching close brace
                    d = 0
                    k2 = j + 1
                    while k2 < n:
                        if toks[k2][1] == "{":
                            d += 1
                        elif toks[k2][1] == "}":
                            d -= 1
                            if d == 0:
                                break
                        k2 += 1
                    cands.append((j + 1, k2))
        i += 1
    if len(cands) != 1:
        raise StageError("function %s: %d definitions found (need exactly 1)" % (name, len(cands)))
    return cands[0]


class _LoopFinder:
    """mini statement parser: walks a function body and records loops in source order
    (ordinal = order of the loop keyword `for`/`while`/`do`; the closing `while` of a do-loop is not counted)."""

    def __init__(self, toks, lo, hi):
        self.t = toks
        self.lo = lo
        self.hi = hi
        self.loops = []  # (keyword, insertion offset in text)

    def skip_parens(self, i):
        assert self.t[i][1] == "(", self.t[i]
        d = 0
        while True:
            v = self.t[i][1]
            if v == "(":
                d += 1
            elif v == ")":
                d -= 1
                if d == 0:
                    return i + 1
            i += 1

    def stmt(self, i):
        k, v, s, e = self.t[i]
        if v == "{":
            i += 1
            while self.t[i][1] != "}":
                i = self.stmt(i)
            return i + 1
        if k == "id" and v == "if":
            i = self.skip_parens(i + 1)
            i = self.stmt(i)
            if self.t[i][0] == "id" and self.t[i][1] == "else":
                i = self.stmt(i + 1)
            return i
        if k == "id" and v in ("for", "while"):
            j = self.skip_parens(i + 1)
            idx = len(self.loops)
            self.loops.append(None)
            self.loops[idx] = (v, self.t[j - 1][3])
            return self.stmt(j)
        if k == "id" and v == "do":
            idx = len(self.loops)
            self.loops.append((v, e))
            i = self.stmt(i + 1)
            if not (self.t[i][0] == "id" and self.t[i][1] == "while"):
                raise StageError("do without while")
            i = self.skip_parens(i + 1)
            if self.t[i][1] != ";":
                raise StageError("do-while without ;")
            return i + 1
        if k == "id" and v == "switch":
            i = self.skip_parens(i + 1)
            return self.stmt(i)
        if k == "id" and v == "case":
            d = 0
            i += 1
            while True:
                vv = self.t[i][1]
                if vv == "?":
                    d += 1
                elif vv == ":":
                    if d == 0:
                        break
                    d -= 1
                i += 1
            return i + 1
        if k == "id" and v == "default" and self.t[i + 1][1] == ":":
            return i + 2
        if k == "id" and self.t[i + 1][1] == ":" and v not in ("case",) and self.t[i + 2][1] != ":":
            # label
            return i + 2
        # expression / declaration statement
        d = 0
        while True:
            vv = self.t[i][1]
            if vv in "({[":
                d += 1
            elif vv in ")}]":
                d -= 1
            elif vv == ";" and d == 0:
                return i + 1
            i += 1

    def run(self):
        self.stmt(self.lo)
        return self.loops


def parse_loops_file(path):
    """format:
         @ <File.c> <Function> <ordinal> <keyword>
         assigns: a, b
         invariant: expr
         invariant: expr
         decreases: expr
       blank lines and lines starting with '#' are ignored; a clause may continue on lines starting with '|'."""
    entries = []
    cur = None
    for raw in open(path):
        line = raw.rstrip("\n")
        if not line.strip() or line.lstrip().startswith("#"):
            continue
        if line.startswith("@"):
            parts = line[1:].split()
            if len(parts) != 4:
                raise StageError("bad loop header: " + line)
            cur = {"file": parts[0], "func": parts[1], "ordinal": int(parts[2]), "kw": parts[3], "clauses": []}
            entries.append(cur)
        elif line.lstrip().startswith("|"):
            cur["clauses"][-1][1] += " " + line.lstrip()[1:].strip()
        else:
            kind, _, expr = line.partition(":")
            kind = kind.strip()
            if kind not in ("assigns", "invariant", "decreases") or cur is None:
                raise StageError("bad loop clause: " + line)
            cur["clauses"].append([kind, expr.strip()])
    return entries


MARK_B = "/*@LC{*/"
MARK_E = "/*@}LC*/"


def render(entry):
    out = []
    for kind, expr in entry["clauses"]:
        if kind == "assigns":
            out.append("__CPROVER_assigns(%s)" % expr)
        elif kind == "invariant":
            out.append("__CPROVER_loop_invariant(%s)" % expr)
        else:
            out.append("__CPROVER_decreases(%s)" % expr)
    return " " + MARK_B + " " + " ".join(out) + " " + MARK_E + " "


def inject_loops(vdir, loops_files, only_funcs=None):
    """inject into vdir/src; returns list of injected loop descriptions"""
    by_file = {}
    for lf in loops_files:
        for e in parse_loops_file(os.path.join(VERIF, "loops", lf)):
            if only_funcs is not None and e["func"] not in only_funcs:
                continue
            by_file.setdefault(e["file"], []).append(e)
    done = []
    for fname, entries in by_file.items():
        path = os.path.join(vdir, "src", fname)
        text = open(path).read()
        toks = tokenize(text)
        inserts = []
        for e in entries:
            lo, hi = find_function(text, toks, e["func"])
            loops = _LoopFinder(toks, lo, hi).run()
            if e["ordinal"] >= len(loops):
                raise StageError("%s:%s has %d loops, entry wants #%d" % (fname, e["func"], len(loops), e["ordinal"]))
            kw, off = loops[e["ordinal"]]
            if kw != e["kw"]:
                raise StageError("%s:%s loop #%d is `%s`, entry says `%s`" % (fname, e["func"], e["ordinal"], kw, e["kw"]))
            inserts.append((off, render(e)))
            done.append("%s:%s#%d(%s)" % (fname, e["func"], e["ordinal"], kw))
        offs = [o for o, _ in inserts]
        if len(set(offs)) != len(offs):
            raise StageError("two loop entries hit the same loop in " + fname)
        for off, s in sorted(inserts, reverse=True):
            text = text[:off] + s + text[off:]
        open(path, "w").write(text)
    return done


def rename_selfcalls(vdir, fname, funcs):
    """inside the body of F, redirect calls URI_FUNC(F)( to URI_FUNC(F__rec)(   (dispatch obligations, DESIGN P9)"""
    path = os.path.join(vdir, "src", fname)
    text = open(path).read()
    n_total = 0
    for f in funcs:
        toks = tokenize(text)
        lo, hi = find_function(text, toks, f)
        edits = []
        i = lo
        while i < hi:
            if (toks[i][1] == "URI_FUNC" and toks[i + 1][1] == "(" and toks[i + 2][1] == f and toks[i + 3][1] == ")"
                    and toks[i + 4][1] == "("):
                edits.append((toks[i + 2][3], toks[i + 3][3]))
            i += 1
        for off_name, off_paren in sorted(edits, reverse=True):
            # the marker comment goes behind the closing parenthesis (a comment inside the argument would break uri##x##A)
            text = text[:off_name] + "__rec" + text[off_name:off_paren] + "/*@RN*/" + text[off_paren:]
        n_total += len(edits)
    open(path, "w").write(text)
    return n_total


# ---------------------------------------------------------------------------------------------
# ghost observer ("watch") injection, DESIGN 10.9: after every expression statement of every function of the named files
# the call VWATCH(); is added ({ stmt; VWATCH(); }), which compares one nondeterministically chosen byte of the call's
# read-only inputs with its value at entry.  Add-only, undo-checked like the loop contracts.

WT_B = "/*@WT{*/"
WT_E = "/*@}WT*/"
_DECL_KW = {"const", "static", "unsigned", "signed", "int", "char", "long", "short", "size_t", "struct", "enum", "union", "void",
            "wchar_t", "float", "double", "register", "volatile", "URI_CHAR", "URI_TYPE", "UriBool", "UriMemoryManager"}
_SKIP_KW = {"return", "break", "continue", "goto"}


def all_function_bodies(toks):
    """(index of '{', index of matching '}') of every function definition: a ')' followed by '{' at brace depth 0"""
    res = []
    depth = 0
    i = 0
    n = len(toks)
    while i < n:
        v = toks[i][1]
        if v == "{":
            if depth == 0 and i > 0 and toks[i - 1][1] == ")":
                d = 0
                k = i
                while k < n:
                    if toks[k][1] == "{":
                        d += 1
                    elif toks[k][1] == "}":
                        d -= 1
                        if d == 0:
                            break
                    k += 1
                res.append((i, k))
                i = k + 1
                continue
            depth += 1
        elif v == "}":
            depth -= 1
        i += 1
    return res


def _is_decl(toks, i, j):
    k, v = toks[i][0], toks[i][1]
    if k != "id":
        return False
    if v in _DECL_KW:
        return True
    if toks[i + 1][0] == "id":                       # two identifiers in a row: `Type name`
        return True
    if toks[i + 1][1] == "*" and toks[i + 2][0] == "id" and toks[i + 3][1] in ("=", ";", ",", "["):
        return True                                  # `Type * name = ..` (never an expression statement in this code base)
    return False


def _visit_stmts(toks, lf, i, out):
    k, v = toks[i][0], toks[i][1]
    j = lf.stmt(i)
    if v == "{":
        c = i + 1
        while toks[c][1] != "}":
            c = _visit_stmts(toks, lf, c, out)
        return j
    if k == "id" and v == "if":
        b = lf.skip_parens(i + 1)
        e = _visit_stmts(toks, lf, b, out)
        if toks[e][0] == "id" and toks[e][1] == "else":
            _visit_stmts(toks, lf, e + 1, out)
        return j
    if k == "id" and v in ("for", "while", "switch"):
        _visit_stmts(toks, lf, lf.skip_parens(i + 1), out)
        return j
    if k == "id" and v == "do":
        _visit_stmts(toks, lf, i + 1, out)
        return j
    if toks[j - 1][1] != ";":                        # case / default / label
        return j
    if v == ";" or (k == "id" and v in _SKIP_KW) or _is_decl(toks, i, j):
        return j
    out.append((toks[i][2], toks[j - 1][3]))
    return j


def inject_watch(vdir, files):
    done = []
    for fname in files:
        path = os.path.join(vdir, "src", fname)
        text = open(path).read()
        toks = tokenize(text)
        spots = []
        nfun = 0
        for lo, hi in all_function_bodies(toks):
            lf = _LoopFinder(toks, lo, hi)
            _visit_stmts(toks, lf, lo, spots)
            nfun += 1
        for s_off, e_off in sorted(spots, reverse=True):
            text = text[:e_off] + WT_B + " VWATCH(); }" + WT_E + text[e_off:]
            text = text[:s_off] + WT_B + "{" + WT_E + text[s_off:]
        open(path, "w").write(text)
        done.append("%s: ghost observer VWATCH() added after %d expression statements of %d functions" % (fname, len(spots), nfun))
    return done


WL_RE = re.compile(r'_UT\("((?:[^"\\\n]|\\.)*)"\)')


def rewrite_wide_literals(vdir):
    """W pass only: CBMC 6.11 takes the *element count* of a wide string literal for its size in bytes, so every read of
    L"..." behind the first byte-count/4 characters is reported out of bounds (false alarm).  Each `_UT("abc")` of the
    library is therefore rewritten to the equivalent array compound literal ((const URI_CHAR[]){_UT('a'),_UT('b'),_UT('c'),0}),
    with the original text kept in a marker comment; verify_undo() restores and compares it.  What this changes: the
    object is an (anonymous) array instead of a string literal - same type, same content, same terminator; literal
    merging/identity, which ISO C leaves unspecified anyway, is not modelled."""
    n_total = 0
    d = os.path.join(vdir, "src")
    for fn in sorted(os.listdir(d)):
        if not fn.endswith(".c"):
            continue
        path = os.path.join(d, fn)
        text = open(path).read()

        def repl(m):
            body = m.group(1)
            chars = re.findall(r"\\.|[^\\]", body)
            elems = ", ".join("_UT('%s')" % (c if c != "'" else "\\'") for c in chars)
            return "/*@WL{%s}*/((const URI_CHAR[]){%s%s0})/*@}WL*/" % (m.group(0), elems, ", " if elems else "")
        new, n = WL_RE.subn(repl, text)
        if n:
            open(path, "w").write(new)
            n_total += n
    return n_total


def parse_waivers():
    res = []
    path = os.path.join(VERIF, "iso_c_waivers.txt")
    if not os.path.exists(path):
        return res
    for line in open(path):
        line = line.strip()
        if not line or line.startswith("#"):
            continue
        parts = [x.strip() for x in line.split("|")]
        if len(parts) < 5:
            raise StageError("bad waiver line: " + line)
        res.append({"file": parts[0], "func": parts[1], "anchor": parts[2], "check": parts[3], "why": parts[4]})
    return res


def _innermost(toks, lf, i, apos):
    """the smallest statement, starting at token i, that contains text offset apos: descends through blocks and the bodies of
    if/else/for/while/do/switch; an anchor inside the parenthesised header selects that whole if/loop statement"""
    while True:
        j = lf.stmt(i)
        k, v = toks[i][0], toks[i][1]
        sub = None
        if v == "{":
            c = i + 1
            while toks[c][1] != "}":
                cj = lf.stmt(c)
                if toks[c][2] <= apos < toks[cj - 1][3]:
                    sub = c
                    break
                c = cj
        elif k == "id" and v in ("if", "for", "while", "switch"):
            b = lf.skip_parens(i + 1)
            bj = lf.stmt(b)
            if toks[b][2] <= apos < toks[bj - 1][3]:
                sub = b
            elif v == "if" and toks[bj][0] == "id" and toks[bj][1] == "else" and toks[bj + 1][2] <= apos:
                sub = bj + 1
        elif k == "id" and v == "do":
            b = i + 1
            bj = lf.stmt(b)
            if toks[b][2] <= apos < toks[bj - 1][3]:
                sub = b
        if sub is None:
            return (toks[i][2], toks[j - 1][3])
        i = sub


def inject_waivers(vdir):
    """switch one named CBMC check off for the top-level statement (of the named function) that contains the anchor"""
    done = []
    by_file = {}
    for w in parse_waivers():
        by_file.setdefault(w["file"], []).append(w)
    for fname, ws in by_file.items():
        path = os.path.join(vdir, "src", fname)
        text = open(path).read()
        toks = tokenize(text)
        inserts = []
        for w in ws:
            try:
                lo, hi = find_function(text, toks, w["func"])
            except StageError:
                done.append("%s:%s waiver for %r not applied: function not found" % (fname, w["func"], w["anchor"]))
                continue
            body_s, body_e = toks[lo][3], toks[hi][2]
            cnt = text.count(w["anchor"], body_s, body_e)
            if cnt == 0:
                # the construct the waiver was written for is gone (the function was rewritten): nothing to waive; every check
                # stays on for the new text
                done.append("%s:%s waiver for %r not applied: the text no longer occurs" % (fname, w["func"], w["anchor"]))
                continue
            if cnt != 1:
                raise StageError("waiver anchor %r occurs %d times in %s:%s (need 1)" % (w["anchor"], cnt, fname, w["func"]))
            apos = text.index(w["anchor"], body_s, body_e)
            lf = _LoopFinder(toks, lo, hi)
            i = lo + 1
            found = None
            while toks[i][1] != "}" or i < hi:
                if i >= hi:
                    break
                j = lf.stmt(i)
                s_off, e_off = toks[i][2], toks[j - 1][3]
                if s_off <= apos < e_off:
                    found = (s_off, e_off)
                    found_i = i
                    break
                i = j
            if not found:
                raise StageError("waiver anchor %r: enclosing statement not found" % w["anchor"])
            found = _innermost(toks, lf, found_i, apos)
            pre = '/*@WV{*/\n#pragma CPROVER check push\n#pragma CPROVER check disable "%s"\n/*@}WV*/' % w["check"]
            post = '/*@WV{*/\n#pragma CPROVER check pop\n/*@}WV*/'
            inserts.append((found[0], pre))
            inserts.append((found[1], post))
            done.append("%s:%s check '%s' waived for the statement containing %r (%s)" % (fname, w["func"], w["check"], w["anchor"], w["why"]))
        for off, ins in sorted(inserts, key=lambda x: -x[0]):
            text = text[:off] + ins + text[off:]
        open(path, "w").write(text)
    return done


def verify_undo(vdir):
    """strip everything the staging added to the variant directory and compare with /repo byte for byte"""
    lc = re.compile(r" " + re.escape(MARK_B) + r".*?" + re.escape(MARK_E) + r" ", re.S)
    rn = re.compile(r"__rec\)/\*@RN\*/")
    wl = re.compile(r"/\*@WL\{(.*?)\}\*/.*?/\*@\}WL\*/", re.S)
    wv = re.compile(r"/\*@WV\{\*/.*?/\*@\}WV\*/", re.S)
    wt = re.compile(r"/\*@WT\{\*/.*?/\*@\}WT\*/", re.S)
    for sub in ("src", "include/uriparser"):
        d = os.path.join(REPO, sub)
        for fn in sorted(os.listdir(d)):
            p = os.path.join(d, fn)
            if not os.path.isfile(p):
                continue
            orig = open(p, "rb").read()
            q = os.path.join(vdir, sub, fn)
            got = open(q, "rb").read().decode("utf-8", "surrogateescape")
            got = wt.sub("", got)
            got = wv.sub("", wl.sub(lambda m: m.group(1), rn.sub(")", lc.sub("", got)))).encode("utf-8", "surrogateescape")
            if got != orig:
                raise StageError("staged %s differs from /repo after undoing the injection" % q)
    return True


def verify_undo_clean(scratch):
    return verify_undo(os.path.join(scratch, "clean"))
