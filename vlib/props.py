"""Per-property metadata and the evidence writer."""
import json, os
from . import stage as S

VERIF = S.VERIF

COMMON_TRUST = [
    "CBMC 6.11.0 (goto-cc, goto-instrument contract/loop-contract passes, symbolic execution, SAT back end), its memory model",
    "64-bit Linux data model; wchar_t is a 32-bit int",
    "machine integers are bit-precise (not mathematical); overflow/shift/division checks are on",
    "staging: /repo working tree copied verbatim, loop-contract clauses added mechanically, undo checked byte for byte",
]
MM_ASSUME = ("memory manager = external component with assumed contract (harness/vmm.h, contracts/mm_contracts.h): malloc/calloc "
             "return NULL or a fresh block of the requested size (calloc zeroed), free accepts NULL or a block it handed out; "
             "every request may fail independently (first 64 requests of a call)")
LIBC_ASSUME = "libc: CBMC's built-in models of memcpy/memset/memcmp/strlen/wcslen/strncmp/wcsncmp (unwound to the stated bounds)"

# filled by the sections below; key = property id
META = {}


def meta(pid, **kw):
    META[pid] = kw


meta("C11",
     explanation=("uriEqualsUri is verified in place together with the real uriCompareRange (route H: harness-asserted contract, "
                  "callees inlined) on every pair of well-formed URI objects within the stated bounds, over all text contents, "
                  "all host kinds (IP addresses by value), NULL arguments and owned/borrowed objects. Postcondition taken from "
                  "the property: TRUE <=> all components identical (absent != empty, absolute-path flag included); two NULLs "
                  "equal; frame: both structures, every path node and every text cell (ghost-indexed) unchanged, no allocator "
                  "traffic. uriCompareRange has its own unbounded contract obligation (route D). Reflexivity, symmetry and "
                  "transitivity follow because the proved relation is equality of views (derived, not a separate obligation). "
                  "The 'recomposed texts identical' half relies on C04/C07 (recomposition is injective on library-produced "
                  "objects) and is not re-proved here."),
     assumptions=[LIBC_ASSUME, "ranges contain no NUL (wf_uri)", "list bound M and text bound L as in coverage.bounds"],
     level_text=("harness-asserted contract of uriEqualsUri with the real uriCompareRange verified in place: TRUE <=> component-wise "
                 "identity, NULL rules, empty frame; bounded in list length and text length (quick 2/2, thorough 3/3), all contents "
                 "symbolic; uriCompareRange additionally under an unbounded function contract"),
     level_note="bounded obligations are labelled bounded; trusted: CBMC, its libc models, staging; see evidence.assumptions")


meta("C15", may_claim_proof=True, category="proof",
     explanation=("Every function of the completed manager (uriDecorateMalloc, uriDecorateFree, uriDecorateRealloc, "
                  "uriEmulateCalloc, uriEmulateReallocarray, uriCompleteMemoryManager, uriMemoryManagerIsComplete) is under a "
                  "function contract enforced by CBMC's DFCC instrumentation on the unmodified source, for all argument values "
                  "(sizes up to SIZE_MAX, NULL arguments, backend failure). The history quantifier is discharged by the "
                  "representation invariant hdr(p,s): 'a block handed out at p with size s is the tail of a backend block at "
                  "p-8 of 8+s bytes whose first word is s'. Malloc establishes hdr (and w_ok over the full client size, in a "
                  "fresh backend object => disjoint from every other live block); free requires hdr and hands the backend exactly "
                  "its own pointer exactly once (is_freeable is the callee precondition, checked); realloc requires hdr and "
                  "either keeps the block (shrink), or requests size bytes, copies the common prefix (ghost-indexed byte "
                  "equality), releases the old block once, or on refusal returns NULL leaving block and header intact; "
                  "NULL/zero-size cases follow realloc conventions; calloc/reallocarray refuse overflowing products with ENOMEM "
                  "before asking and otherwise request exactly the product (calloc memory zero at the ghost index). Each "
                  "operation requires hdr only of the block it is given and establishes it for the block it returns, so by "
                  "induction over any call sequence every live block satisfies hdr; 'nothing outstanding once everything is "
                  "freed' follows from one backend malloc per successful malloc and one backend free per free. The "
                  "division-form overflow test is tied to the mathematical product by a Lean 4 lemma."),
     assumptions=["backend malloc/free obey be_malloc_contract/be_free_contract (NULL or fresh block of the requested size; "
                  "free accepts exactly a pointer it handed out)",
                  "memcpy/memset obey the ghost-indexed libc contracts in contracts/UriMemory.contracts.h",
                  "errno modelled as a plain global int (macro override in the harness TU)",
                  "clients stay inside their blocks (the size header lies just below the client pointer)",
                  "uriDecorateRealloc's hdr block is built by the harness with real assignments; its calls to memory->malloc / "
                  "memory->free are replaced by contracts whose preconditions are those proved for uriDecorateMalloc/Free"],
     trusted=["cvc5 1.0 (SMT back end for the two obligations containing 64-bit division)", "Lean 4.33 kernel (lemma mul_overflow_check)"],
     level_text=("unbounded function contracts (DFCC) on all seven functions of src/UriMemory.c that make up the completed manager, "
                 "plus a Lean lemma for the overflow test; history closure by the hdr representation invariant"),
     level_note="assumed: backend contract, libc memcpy/memset contracts, errno as a global; see evidence.assumptions")


def write_evidence(prop, tier, seed, results, obmap, violations, kf_lines, wall, findings, fixed):
    m = META.get(prop, {})
    groups = []
    n_p = n_ok = 0
    all_unbounded = True
    cmds = []
    samples = []
    solver = 0.0
    undec = []
    for r in results:
        o = obmap[r["id"]]
        n_p += r["n_props"]
        n_ok += r["n_ok"]
        solver += r.get("solver_s", 0)
        if r["level"] != "P":
            all_unbounded = False
        if r.get("checker_cmd"):
            cmds.append(r["checker_cmd"])
        samples.extend(r.get("samples", [])[:2])
        if r["status"] == "undecided":
            undec.append({"obligation": r["id"], "reason": r["reason"][:400]})
        groups.append({
            "obligation": r["id"], "group": r.get("group"), "status": r["status"], "route": r["route"], "char": r["char"],
            "level": "unbounded (all inputs, all iterations)" if r["level"] == "P" else "bounded - not counted as proved",
            "bounds": r.get("bounds", ""), "functions_under_contract": r.get("functions", []),
            "callees_inlined_and_verified_in_place": o.get("inlined", []), "callees_stubbed_by_contract": o.get("stubs", []),
            "obligations": r["n_props"], "discharged": r["n_ok"], "by_class": r.get("classes", {}),
            "back_end": r.get("backend", ""), "solver_s": round(r.get("solver_s", 0), 2), "wall_s": r.get("wall_s"),
            "checker_cmd": r.get("checker_cmd", ""), "defines": r.get("defines", {}),
            "loop_contracts_injected": r.get("injected", []),
            "input_diversity_markers": r.get("covers", {}),
            "known_finding_assertions": {"present": r.get("kf_total", 0), "still_failing": len(r.get("kf", []))},
        })
    level = "proof" if (all_unbounded and not undec and not violations and m.get("may_claim_proof")) else "other"
    cov = {
        "obligations": n_p, "discharged": n_ok,
        "checker_cmd": cmds[0] if cmds else "",
        "trusted_base": COMMON_TRUST + m.get("trusted", []),
        "explanation": m.get("explanation", "") + ("" if all_unbounded else
                                                   "  [At least one obligation group is bounded: see coverage.groups[].level/bounds; "
                                                   "bounded groups are not counted as proved.]"),
        "groups": groups,
        "samples": samples[:6] if samples else [{"note": "no contract-class obligation sample available"}],
        "solver_s_total": round(solver, 2),
        "undecided": undec,
        "known_findings_reported": kf_lines,
        "fixed_findings_on_record": fixed,
        "violations": violations,
        "exhaustive": False,
    }
    ev = {"property_id": prop, "tier": tier, "seed": seed, "level": level, "coverage": cov,
          "assumptions": [MM_ASSUME] + m.get("assumptions", []), "wall_s": wall, "violations": len(violations)}
    os.makedirs(os.path.join(VERIF, "evidence"), exist_ok=True)
    json.dump(ev, open(os.path.join(VERIF, "evidence", prop + ".json"), "w"), indent=1)
