"""Per-property metadata and the evidence writer."""
import json, os
from . import stage as S

VERIF = S.VERIF

COMMON_TRUST = [
    "CBMC 6.11.0 (goto-cc, goto-instrument contract/loop-contract passes, symbolic execution, SAT back end), its memory model",
    "64-bit Linux data model; wchar_t is a 32-bit int",
    "machine integers are bit-precise (not mathematical); overflow/shift/division checks are on",
    "staging: /repo working tree copied verbatim, loop-contract clauses added mechanically, undo checked byte for byte",
]
MM_ASSUME = ("memory manager = external component with assumed contract (harness/vmm.h, contracts/mm_contracts.h): malloc/calloc "
             "return NULL or a fresh block of the requested size (calloc zeroed), free accepts NULL or a block it handed out; "
             "every request may fail independently (first 64 requests of a call)")
LIBC_ASSUME = "libc: CBMC's built-in models of memcpy/memset/memcmp/strlen/wcslen/strncmp/wcsncmp (unwound to the stated bounds)"

# filled by the sections below; key = property id
META = {}


def meta(pid, **kw):
    META[pid] = kw


meta("C11",
     explanation=("uriEqualsUri is verified in place together with the real uriCompareRange (route H: harness-asserted contract, "
                  "callees inlined) on every pair of well-formed URI objects within the stated bounds, over all text contents, "
                  "all host kinds (IP addresses by value), NULL arguments and owned/borrowed objects. Postcondition taken from "
                  "the property: TRUE <=> all components identical (absent != empty, absolute-path flag included); two NULLs "
                  "equal; frame: both structures, every path node and every text cell (ghost-indexed) unchanged, no allocator "
                  "traffic. uriCompareRange has its own unbounded contract obligation (route D). Reflexivity, symmetry and "
                  "transitivity follow because the proved relation is equality of views (derived, not a separate obligation). "
                  "The 'recomposed texts identical' half relies on C04/C07 (recomposition is injective on library-produced "
                  "objects) and is not re-proved here."),
     assumptions=["the DFCC contract of uriCompareRange is proved for two text ranges in distinct objects; aliasing ranges (two URIs borrowing from one buffer, same start address) are covered by the bounded EqualsUri obligations (shared-buffer mode) only", LIBC_ASSUME, "ranges contain no NUL (wf_uri)", "list bound M and text bound L as in coverage.bounds"],
     level_text=("harness-asserted contract of uriEqualsUri with the real uriCompareRange verified in place: TRUE <=> component-wise "
                 "identity, NULL rules, empty frame; bounded in list length and text length (quick 2/2, thorough 3/3), all contents "
                 "symbolic; uriCompareRange additionally under an unbounded function contract"),
     level_note="bounded obligations are labelled bounded; trusted: CBMC, its libc models, staging; see evidence.assumptions")


meta("C15", may_claim_proof=True, category="proof",
     explanation=("Every function of the completed manager (uriDecorateMalloc, uriDecorateFree, uriDecorateRealloc, "
                  "uriEmulateCalloc, uriEmulateReallocarray, uriCompleteMemoryManager, uriMemoryManagerIsComplete) is under a "
                  "function contract enforced by CBMC's DFCC instrumentation on the unmodified source, for all argument values "
                  "(sizes up to SIZE_MAX, NULL arguments, backend failure). The history quantifier is discharged by the "
                  "representation invariant hdr(p,s): 'a block handed out at p with size s is the tail of a backend block at "
                  "p-8 of 8+s bytes whose first word is s'. Malloc establishes hdr (and w_ok over the full client size, in a "
                  "fresh backend object => disjoint from every other live block); free requires hdr and hands the backend exactly "
                  "its own pointer exactly once (is_freeable is the callee precondition, checked); realloc requires hdr and "
                  "either keeps the block (shrink), or requests size bytes, copies the common prefix (ghost-indexed byte "
                  "equality), releases the old block once, or on refusal returns NULL leaving block and header intact; "
                  "NULL/zero-size cases follow realloc conventions; calloc/reallocarray refuse overflowing products with ENOMEM "
                  "before asking and otherwise request exactly the product (calloc memory zero at the ghost index). Each "
                  "operation requires hdr only of the block it is given and establishes it for the block it returns, so by "
                  "induction over any call sequence every live block satisfies hdr; 'nothing outstanding once everything is "
                  "freed' follows from one backend malloc per successful malloc and one backend free per free. The "
                  "division-form overflow test is tied to the mathematical product by a Lean 4 lemma."),
     assumptions=["backend malloc/free obey be_malloc_contract/be_free_contract (NULL or fresh block of the requested size; "
                  "free accepts exactly a pointer it handed out)",
                  "memcpy/memset obey the ghost-indexed libc contracts in contracts/UriMemory.contracts.h",
                  "errno modelled as a plain global int (macro override in the harness TU)",
                  "clients stay inside their blocks (the size header lies just below the client pointer)",
                  "uriDecorateRealloc's hdr block is built by the harness with real assignments; its calls to memory->malloc / "
                  "memory->free are replaced by contracts whose preconditions are those proved for uriDecorateMalloc/Free"],
     trusted=["cvc5 1.0 (SMT back end for the two obligations containing 64-bit division)", "Lean 4.33 kernel (lemma mul_overflow_check)"],
     level_text=("unbounded function contracts (DFCC) on all seven functions of src/UriMemory.c that make up the completed manager, "
                 "plus a Lean lemma for the overflow test; history closure by the hdr representation invariant"),
     level_note="assumed: backend contract, libc memcpy/memset contracts, errno as a global; see evidence.assumptions")


BOUNDED_NOTE = "bounded in list length / text length as stated per group; bounded groups are labelled and never counted as proved"

meta("C05",
     explanation=("uriToString and uriToStringCharsRequired are verified through the real uriToStringEngine (route H), split by host "
                  "kind, for every well-formed URI object within the stated bounds, both character types, owned and borrowed "
                  "objects, charsWritten NULL or not, and EVERY capacity from -2 to length+3: the destination is a heap block of "
                  "exactly maxChars characters and memcpy is a stub that asserts the whole destination slice writable, so any "
                  "write beyond the stated capacity is a failed memory-safety obligation (uriToStringEngine never reads the "
                  "destination, so not copying content cannot mask a control-flow change). Postconditions from the property: "
                  "required == length of the RFC 3986 5.3 recomposition (spec_recompose, written from the RFC); capacity >= "
                  "length+1 => success, length+1 reported, NUL at length; smaller => TOO_LONG, zero reported, empty string if "
                  "capacity >= 1, destination untouched if capacity < 1; NULL handling; URI unchanged; no allocator traffic."),
     assumptions=["total recomposed length < INT_MAX (the API reports lengths as int)", "memcpy: check-only stub (w_ok/r_ok of the whole slice)",
                  BOUNDED_NOTE],
     level_text=("harness-asserted contract of uriToString/uriToStringCharsRequired over the real uriToStringEngine: exact sizes, capacity "
                 "protocol for every capacity, no write beyond the capacity; all text contents and address bytes symbolic; bounded in "
                 "segments and component length (quick 2/2, thorough 3/3)"),
     level_note="bounded in list length and component length; trusted: CBMC, memcpy stub, staging")

meta("C04",
     explanation=("Decided here: the recomposition half. For every well-formed URI object within the bounds, uriToString (ample "
                  "capacity) writes exactly spec_recompose(view): character-by-character equality at a ghost index, IPv4 as "
                  "decimal octets, IPv6 as eight groups of four lower-case hex digits, delimiters re-inserted from the presence "
                  "flags (route H, split by host kind, both character types; memcpy = element-wise copy stub that also rejects "
                  "sizes that are not whole characters). The parse half (the view of a parsed text is the RFC decomposition of that "
                  "text, and IPv6 bytes equal the value written) is C01/C02's subject; the composition 'parse then recompose == "
                  "input' additionally needs lemma L3 of DESIGN (recompose o decompose == identity on accepted words), which is "
                  "NOT machine-checked in this version and is listed as an unchecked assumption."),
     assumptions=["lemma L3 (spec_recompose of the RFC decomposition of an accepted word gives the word back, IPv6 canonicalised) - not machine-checked",
                  "parse result == RFC decomposition: see C02", BOUNDED_NOTE],
     level_text=("uriToString content == RFC 3986 5.3 recomposition of the component view, ghost-indexed, all contents symbolic, bounded in "
                 "segments and component length; the parse half is referred to C01/C02 and lemma L3 is an unchecked assumption"),
     level_note="only the recomposition half is decided here; see evidence.assumptions")

meta("C06",
     explanation=("uriAddBaseUriExMm is verified as a whole operation with ALL its real callees inlined (uriAddBaseUriImpl, "
                  "uriCopyAuthority, uriCopyPath, uriMergePath, uriResolveAbsolutePathFlag, uriRemoveDotSegmentsAbsolute/Ex, "
                  "uriFixAmbiguity, uriFixEmptyTrailSegment, uriFreeUriMembersMm, uriCompareRange) on every pair of well-formed, "
                  "reparse-safe, delimiter-legal base/reference objects within the bounds, both option values, both character "
                  "types, every allocation request free to fail. Oracle: spec_resolve = RFC 3986 5.2.2 on views with the 5.2.3 "
                  "merge, segment-level dot removal that preserves rootedness, and the '/.' guard exactly where the result would be "
                  "a host-less path starting with '//' (spec/spec_path.h, written from the RFC and the property statement). "
                  "Postconditions: error code for a scheme-less base before anything is allocated; scheme, authority (kind, "
                  "address bytes by value and as a private copy, user info, port), path, query, fragment equal the specified target; "
                  "result well formed. A change inside a callee is noticed by this obligation because the callee's real body is "
                  "verified in place."),
     assumptions=["inputs satisfy the invariant of C07 (well formed, reparse-safe) and delimiter-level legality (harness/vuri.h vu_legal)",
                  "the path clause is not demanded where the specified segment list is rootless with an empty first segment (the RFC text of that shape denotes an absolute path, which the property also forbids; DESIGN 10.13): there only 'no host-less result begins with //' is demanded",
                  LIBC_ASSUME, BOUNDED_NOTE],
     level_text=("harness-asserted contract of uriAddBaseUriExMm against spec_resolve (RFC 3986 5.2.2-5.2.4 on views), all real callees "
                 "verified in place, all contents symbolic, every allocation may fail; bounded in segments (2x2 quick, 3x3 thorough) and "
                 "component length"),
     level_note="bounded in list and text length; findings beyond the quick bound (3-segment paths) are exercised in the thorough tier")

meta("C10",
     explanation=("uriRemoveBaseUriMm is verified as a whole operation with all real callees inlined (uriRemoveBaseUriImpl, "
                  "uriEqualsAuthority, uriAppendSegment, uriCopyAuthority, uriCopyPath, uriFixAmbiguity, uriCompareRange, "
                  "uriFreeUriMembersMm) on every pair of well-formed absolute/non-absolute source/base objects within the bounds, "
                  "both modes, every allocation free to fail. Oracle taken from the property: spec_resolve(view(result), view(B)) "
                  "equals view(S) after dot-segment removal on both sides and with an empty path under an authority identified "
                  "with '/'; scheme omitted when shared and a scheme-less reference can denote S; authority omitted when user "
                  "info, host (by kind and value) and port are all shared, else it is S's; domain-root mode => absolute path; "
                  "differing schemes => S unchanged; specific error codes before anything is allocated. Four defects found by "
                  "this obligation were repaired in /repo (see known_findings.txt 'fixed:'), four more are recorded as known "
                  "findings with their input regions; outside those regions the postcondition is enforced in full."),
     assumptions=["inputs satisfy the invariant of C07 and delimiter-level legality", LIBC_ASSUME, BOUNDED_NOTE],
     level_text=("harness-asserted contract of uriRemoveBaseUriMm: inverse of spec_resolve, omission rules, error codes; real callees "
                 "verified in place; all contents symbolic; bounded in segments (2x2 quick, 3x3 thorough) and component length"),
     level_note="bounded; known findings listed in known_findings.txt are excluded by input region only")

meta("C16",
     explanation=("Unbounded part (route N: loop contracts injected mechanically into a scratch copy, CBMC's loop-contract pass): "
                  "uriEscapeEx for input lengths up to 10^5 characters (object size, no unwinding), both flags, explicit-range and "
                  "NUL-terminated mode, into a destination of EXACTLY 3n+1 / 6n+1 characters: never writes outside, returns its "
                  "terminator, output length <= 3n (6n), and at a ghost output index only unreserved characters, '+' (if requested) "
                  "or a '%' that starts a complete triplet of upper-case hex digits; termination by a decreases clause. "
                  "uriUnescapeInPlaceEx for strings up to 10^5 characters in a block of exactly n+1 characters: write <= read <= "
                  "terminator (so it never lengthens and never writes past the terminator, and every look-ahead stops at it), "
                  "returns the new terminator. NULL/aliasing corner cases loop-free. Bounded part: content of unescape against "
                  "spec_unescape and the round trip unescape(escape(s)) == s for short strings (see groups)."),
     assumptions=["uriHexToLetter/uriHexdigToInt verified in place", BOUNDED_NOTE],
     level_text=("loop-contract proofs (all lengths) of the bounds, terminator, charset and in-place safety clauses of uriEscapeEx / "
                 "uriUnescapeInPlaceEx; bounded obligations for decoded content and the round trip"),
     level_note="content/round-trip groups are bounded; trusted: CBMC loop-contract pass (non-DFCC), staging with byte-for-byte undo check")

meta("C03",
     explanation=("Every rule function of the recursive-descent parser (31 functions of src/UriParse.c) is under ONE shared interface "
                  "contract enforced by CBMC's DFCC instrumentation with induction on the recursion (--enforce-contract-rec; all "
                  "other callees replaced by their contracts, which are the same text and are enforced by their own obligations): "
                  "the input is a heap object of exactly the input length (symbolic up to 10^6 characters, no unwinding), so every "
                  "read at or beyond afterLast is a failed memory-safety obligation; no input character is in any assigns clause, so "
                  "a write to the input is a failed frame obligation; the returned position lies in [first, afterLast]; on failure "
                  "the error is SYNTAX with a position in [first, afterLast] or MALLOC, and pathHead/pathTail/ip4/ip6 are NULL "
                  "(nothing left allocated); every recorded mark is NULL, the placeholder or a position of the input. The entry "
                  "points uriParseUriExMm / uriParseSingleUriExMm are verified against these contracts (loop-free). The helper "
                  "contracts assumed there (StopSyntax, StopMalloc, PushPathSegment, FixEmptyTrailSegment, FreeUriMembersMm) are "
                  "discharged on the real code in route H (bounded in list length): everything released, members reset, second free "
                  "harmless. uriParseIpFourAddress is proved loop-free for all lengths. NOT yet under contract: "
                  "uriParseIPv6address2 (three nested loops) and the three OnExit host helpers - their contracts are assumed and "
                  "listed as such."),
     assumptions=["ASSUMED (not yet discharged): interface contract of uriParseIPv6address2 and of uriOnExitOwnHost2 / OwnHostUserInfo / "
                  "OwnPortUserInfo / SegmentNzNcOrScheme2",
                  "memory manager members obey pm_*_contract (contracts/UriParse.contracts.h)",
                  "independence of what follows the range is a corollary (determinism + reads confined), not a separate obligation",
                  BOUNDED_NOTE],
     level_text=("DFCC function contracts with induction on recursion for all 31 parser rule functions and the entry points (unbounded), "
                 "route-H obligations for the list/error-exit helpers (bounded in list length), IPv4 parser loop-free proof; the IPv6 "
                 "scanner's contract is assumed"),
     level_note="uriParseIPv6address2 and the OnExit helpers are assumed contracts in this version; helper groups are bounded")


meta("C08",
     explanation=("uriNormalizeSyntaxExMm and uriNormalizeSyntaxMaskRequiredEx are verified through the real uriNormalizeSyntaxEngine with "
                  "ALL real callees inlined (lower-casing, percent-encoding repair in place and copying, dot-segment removal, "
                  "make-owner, leak prevention, FreeUriMembers), for a SYMBOLIC mask (all 64), owned and borrowed objects, split by "
                  "component group to keep each obligation within memory (scheme+query+fragment / authority / path / all components "
                  "with 1-character texts). Oracle: the RFC 3986 6.2.2 normal form per component (spec/spec_normalize.h: scheme and "
                  "host lower case, hex digits of percent-encodings upper case, percent-encoded unreserved characters decoded; path: "
                  "per-segment repair then segment-level dot removal keeping only the leading '..' run of a relative-path reference). "
                  "Postconditions: selected components equal their normal form, all others keep their text; host kind, port, "
                  "address bytes unchanged; mask-required: a clear bit implies the component already is normal (hence normalizing "
                  "with the reported mask equals full normalization, and a zero mask means normal form); idempotence follows from "
                  "'normal form is a fixed point of the spec' (derived). Inputs a relative-path reference whose dot-free path would "
                  "be empty or start with an empty segment are exempt from the content comparison (C09 covers them)."),
     assumptions=["inputs satisfy the invariant of C07, delimiter-level legality, and every '%' starts a well-formed triplet (what the parser guarantees)",
                  "memcpy: element-wise copy stub", BOUNDED_NOTE],
     level_text=("harness-asserted contract of uriNormalizeSyntaxExMm / MaskRequiredEx against the RFC 3986 6.2.2 normal form, symbolic mask, "
                 "real callees verified in place, split by component group; bounded in segments (<=2) and component length (<=3)"),
     level_note="bounded; one known finding (host percent-encoding lower-cased) excluded by input region")

meta("C09",
     explanation=("Decided by the uriNormalizeSyntaxExMm obligations (shared with C08): for every input and every mask the presence of scheme "
                  "and authority is preserved; for a reference with neither, an absolute path stays absolute and a relative path stays "
                  "relative and non-empty (as text: not empty, not starting with '/'). The commutation statement "
                  "'normalize(resolve(normalize(R),B)) == normalize(resolve(R,B))' is NOT decided in this version: it needs the "
                  "spec-level commutation lemma of DESIGN C09, which has not been machine-checked; it is listed as an unchecked "
                  "assumption and the claim is restricted to the preservation clauses."),
     assumptions=["commutation of normalization with resolution: not decided (spec-level lemma not machine-checked)", BOUNDED_NOTE],
     level_text="preservation clauses of C09 as postconditions of the uriNormalizeSyntaxExMm obligations (bounded); commutation not decided",
     level_note="partial: only the 'never adds/removes scheme or authority, never changes the path kind' half is decided")

meta("C07",
     explanation=("History quantifier => invariant Inv(u) := well formed (list terminates, tail is the last node, host never with the "
                  "absolute-path flag, ranges both NULL or ordered) and reparse-safe (no host-less path starting with '//', no "
                  "unrooted path whose first segment is empty, no scheme-less authority-less relative path whose first segment "
                  "contains ':'). Preservation is a postcondition of every whole-operation obligation, each REQUIRING Inv of its "
                  "inputs: uriAddBaseUriExMm, uriRemoveBaseUriMm, uriNormalizeSyntaxExMm (symbolic mask), uriMakeOwnerMm; "
                  "establishment by the parser: structure by the PushPathSegment/FixEmptyTrailSegment obligations and the parser "
                  "contracts. By induction every reachable object satisfies Inv. The last step - Inv(u) implies that the RFC "
                  "decomposition of the recomposed text returns the same components (lemma L5 of DESIGN) - is argued in DESIGN but NOT "
                  "machine-checked; it is listed as an unchecked assumption."),
     assumptions=["lemma L5 (Inv(u) => decompose(recompose(u)) == view(u)): not machine-checked",
                  "reparse-safety of a freshly parsed object (part of L2/L3): not machine-checked", BOUNDED_NOTE],
     level_text="preservation of the structural/reparse-safety invariant by every producing operation (bounded whole-operation obligations); L5 unchecked",
     level_note="invariant preservation is decided per operation within bounds; the final recompose/decompose lemma is an assumption")

meta("C12",
     explanation=("uriMakeOwnerMm (real engine, range owner, leak prevention) and uriNormalizeSyntaxExMm with a non-zero mask on a borrowed URI: "
                  "afterwards the owner flag is set, every non-empty range is a block that is not the source text object (object "
                  "identity, checked with __CPROVER_same_object), IPvFuture text is duplicated once and shared, the content (view) "
                  "equals what it was (resp. its normal form), and after overwriting every cell of the source text with arbitrary "
                  "values the view is still the same. No operation writes caller text: in every whole-operation obligation the "
                  "source pool is compared cell by cell (ghost index) before and after; read-only URI arguments (bases, sources, "
                  "operands of comparison, recomposition, mask query) are compared structure, node (ghost-indexed) and address "
                  "bytes before and after."),
     assumptions=[BOUNDED_NOTE, "memcpy: element-wise copy stub"],
     level_text="ownership/independence postconditions and read-only frames in the whole-operation obligations (bounded)",
     level_note="bounded in list and text length")

meta("C13",
     explanation=("[S] the call graph of the staged library shows malloc/calloc/realloc/reallocarray/free called only by the five "
                  "uriDefault* functions. Every whole-operation obligation (parse helpers, resolve, create reference, normalize, make "
                  "owner, dissect/append query) runs with a recording manager: blocks handed out and returned are counted, the real "
                  "malloc/free behind it make double free, free of a pointer never handed out or of an interior pointer and "
                  "use-after-free failed memory-safety obligations; postconditions: after the matching release call the ledger is "
                  "back to its entry value; FreeUriMembers twice is harmless; realloc/reallocarray are never used; an incomplete "
                  "manager or NULL argument is rejected before anything is allocated; uriMemoryManagerIsComplete under an unbounded "
                  "function contract. The NULL-manager => default-manager branch is the URI_CHECK_MEMORY_MANAGER macro, covered "
                  "syntactically by the call-graph fact; DefaultManager exercises it with CBMC's model of the C library allocator and the "
                  "memory-leak check. ManagerEntry (complete: loop-free): "
                  "each of the ten manager-taking functions with each of five incomplete managers and arbitrary argument contents: the "
                  "dedicated code, no request, no release, output objects untouched. NullArgs (complete): the NULL-argument exits with a "
                  "stale output URI release nothing, nor does the caller's cleanup. Wrappers (complete): the 23 thin public wrappers "
                  "hand the default manager (NULL) and their own arguments to the manager-taking function, once."),
     assumptions=[MM_ASSUME, BOUNDED_NOTE, "default (libc) manager path: uriDefaultMalloc/Calloc/Free and one operation end to end (DefaultManager.*.H, on CBMC's allocator model with the leak check); uriDefaultRealloc/Reallocarray are under no obligation (the library never calls them: asserted by the ledger stub's misuse counter)"],
     level_text="ledger postconditions in every whole-operation obligation (bounded) + static call-graph fact + entry-check contracts",
     level_note="bounded in list and text length; default-manager path only by the static fact")

meta("C14",
     explanation=("The recording manager refuses request k for every k independently (bit k of a nondeterministic 64-bit mask), so one "
                  "obligation covers every position and both fail-once and fail-from-k-on. Per operation (resolve, create reference, "
                  "normalize with a symbolic mask, make owner, dissect/append query, the parser's segment/host helpers and error "
                  "exits): a refused request implies the out-of-memory code; after the caller's ordinary cleanup "
                  "(uriFreeUriMembersMm on the output / in-place URI only) the ledger is back to its entry value; CBMC's own "
                  "double-free / invalid-free / use-after-free checks are on; read-only inputs unchanged. The parser's rule functions "
                  "propagate failures by contract (result NULL => MALLOC or SYNTAX with nothing left allocated)."),
     assumptions=[MM_ASSUME, BOUNDED_NOTE, "uriComposeQueryMallocExMm: not yet under an obligation"],
     level_text="fault injection at every allocation request inside the whole-operation obligations (all fault sequences, bounded inputs)",
     level_note="one known finding (normalize borrowed path leak) excluded by input region")

meta("C17",
     explanation=("Modular: (1) uriDissectQueryMallocExMm with uriAppendQueryItem replaced by its contract stub: the effective calls are "
                  "exactly the pieces between '&', split at their first '=', in order, no value iff no '=', empty key without value "
                  "dropped, options passed through, count, list length, failure => MALLOC with everything released; (2) the real "
                  "uriAppendQueryItem (discharging that stub): exact-size unescaped copies, NULL vs empty value, complete roll-back; "
                  "(3) uriComposeQueryEx / CharsRequiredEx on fixed-size inputs: the chars-required figure is sufficient, "
                  "written == length+1, nothing written outside a destination of exactly maxChars characters, only characters "
                  "legal in a query; (4) escaping/unescaping content and round trip from C16; (5) ComposeSizes: the engine with SYMBOLIC "
                  "string lengths (uriEscapeEx and strlen by contract stubs): chars required == worst-case sum, sufficient, written == "
                  "length+1, room for every escape call inside maxChars, per-string and total sizes beyond INT_MAX refused, no int "
                  "overflow - bounded in the number of items only; (6) Wrappers: the eight convenience entry points hand the documented "
                  "defaults to the engines. The total-size overflow found by (5) was repaired (fix: 4076e15)."),
     assumptions=[BOUNDED_NOTE, "uriEscapeEx inside ComposeSizes is its contract stub (clauses proved by EscapeEx.A.N for char; the wchar_t escape function has only the bounded content obligations)",
                  "uriComposeQueryMallocExMm's INT_MAX guard (charsRequired == INT_MAX) is covered only through the small-size ComposeQueryMalloc obligation"],
     level_text="bounded modular obligations for dissect (callee by contract stub), append item, compose sizes/legal characters; size arithmetic with symbolic string lengths; wrappers complete",
     level_note="bounded in item count / text length; size arithmetic unbounded in string lengths")

meta("C18",
     explanation=("uriUnixFilenameToUriString / uriWindowsFilenameToUriString and back, through the real uriFilenameToUriString / "
                  "uriUriStringToFilename with the real escape/unescape functions, on every filename within the bound over code points "
                  "1..255 (Windows: the stated domain): the URI string fits a block of EXACTLY the documented 7+3n+1 / 8+3n+1 / 3n+1 "
                  "characters, has the file:///x, file:///C:/x, file://server/share resp. relative shape with path characters only, "
                  "converting back into a block of EXACTLY the documented len+1-5 / len+1 characters returns the original name; the "
                  "short forms file:/x and file:c:/x are accepted."),
     assumptions=[BOUNDED_NOTE, "validity of the URI string is checked as 'path characters and complete triplets behind the fixed prefix', not by running the parser"],
     level_text="bounded round-trip and buffer-size obligations with exact-size blocks",
     level_note="bounded in filename length (3 quick / 5 thorough)")

meta("C19",
     explanation=("Both variants are compiled from the same text and are verified against the SAME contract/harness text (written over "
                  "URI_CHAR): every obligation of the other properties is instantiated for char and for wchar_t. Where the contract "
                  "is functional (views, ghost-indexed content, exact sizes in characters, exact-size destination blocks) two "
                  "functions satisfying it agree on every input representable in both types. The W pass uses a staged copy in "
                  "which wide string literals are rewritten to array compound literals (CBMC 6.11 mis-sizes wide literals). The memcpy "
                  "stub rejects sizes that are not a whole number of characters (n instead of n*sizeof)."),
     assumptions=["level = level of the underlying obligations (see the other evidence files)", "W-pass staging rule for wide string literals (vlib/stage.py)"],
     level_text="every obligation instantiated for both character types against the same contract text",
     level_note="bounded/unbounded exactly as the underlying obligations")

meta("C20",
     explanation=("Schedules cannot be explored by sequential contracts; what is decided is the standard sufficient condition. (a) frames: "
                  "every whole-operation obligation shows that a call writes only its output objects and memory it allocated itself "
                  "- read-only inputs (structures, nodes, text, address bytes) are compared before/after, no allocator traffic where "
                  "none is expected; DFCC assigns-clause checking for the functions under function contracts. (a') ghost observers "
                  "(obligations Watch.*): the staged library calls VWATCH() after every expression statement; while uriAddBaseUriExMm, "
                  "uriRemoveBaseUriMm, uriEqualsUri, uriToString(CharsRequired), uriNormalizeSyntaxMaskRequiredEx, "
                  "uriComposeQuery(CharsRequired)Ex run, one nondeterministically chosen field / node field / character / address byte of "
                  "their shared inputs must equal its entry value at every statement boundary - a write that is undone before the "
                  "call returns fails (a DFCC assigns clause on the whole operation was tried and does not fit into memory). (b) [S] the "
                  "static-lifetime objects of the staged library are exactly the seven constant ones and no instruction assigns "
                  "them by name. From (a) and (b) two calls with disjoint outputs write disjoint locations and neither writes what "
                  "the other reads: no data race, and each result is a function of its inputs only."),
     assumptions=["the supplied memory manager and the C library functions used are thread-safe", "errno is thread-local on the platform",
                  "the data-race-freedom argument itself (disjoint writes => no race) is the standard theorem, not machine-checked"],
     level_text="frame conditions per operation + static fact about static-lifetime objects; interleavings not explored (not expressible)",
     level_note="sufficient condition only; see DESIGN section 8")


meta("C01",
     explanation=("code == table == RFC. (1) [unbounded, CBMC/DFCC] for each of the 31 rule functions of the parser a DISPATCH contract, "
                  "generated on every run from the production comments above the function in /repo's current src/UriParse.c, is "
                  "enforced on the real body: for a symbolic lookahead character (and end of input) the sequence of rule functions "
                  "called, their position arguments, the returned position and - on rejection - the syntax-error position are exactly "
                  "those of the LL(1) table (callees replaced by logging interface contracts, self-calls by a body-less twin carrying "
                  "the same contract; input length symbolic, no unwinding). A dropped case label, a wrong `first + k`, a wrong error "
                  "position or a swapped callee fails the obligation of exactly that function. (2) [lemma, complete automata "
                  "construction] the documented table denotes exactly `URI-reference` of the ABNF in doc/rfc3986_grammar_only.txt: "
                  "minimal DFAs compared (182 live + 1 dead state), all recursion is tail recursion, the table is LL(1). (3) entry points: "
                  "whole range consumed or syntax error at the stop position inside the range; NULL arguments. (4) IP literals: "
                  "uriParseIpFourAddress == RFC IPv4address for all lengths; uriParseIPv6address2 == RFC IPv6address ']' BOUNDED (literal "
                  "length, see group); IPv4 classification of hosts against the RFC recogniser. Not decided: that the error position is "
                  "the FIRST character after which no completion exists (lemma L1c: needs the product of the table parser with the RFC "
                  "DFA; not machine-checked), and the wide-character out-of-range code points beyond the symbolic URI_CHAR treatment."),
     assumptions=["lemma L1c (reported position == point where the RFC DFA dies): not machine-checked; the position is proved to be the one the table prescribes and to lie in [first, afterLast]",
                  "uriParseIPv6address2: interface contract assumed by its caller; language equivalence bounded in literal length",
                  "memory manager members obey pm_*_contract", BOUNDED_NOTE],
     trusted=["spec/grammar_tool.py (ABNF reader, subset construction, minimisation) - cross-checked by the 183-state count"],
     level_text=("generated dispatch contracts on all 31 rule functions (unbounded, DFCC) + automata lemma table == RFC 3986 + entry-point "
                 "contracts + IPv4 proof; IPv6 scanner bounded"),
     level_note="IPv6 literal language bounded (8 / 12 characters); error-position minimality lemma unchecked")

meta("C02",
     explanation=("Decided: (a) which rule function is called at which position for every lookahead (the dispatch contracts of C01) - the "
                  "component boundaries are the positions handed between rules; (b) host classification: a host is IPv4 exactly when "
                  "its text is an RFC IPv4address and the four bytes equal the value written (all lengths for the IPv4 parser; host-end "
                  "helpers on host texts up to 16 characters), IPv6 literals and their 16 bytes against the RFC recogniser (bounded in "
                  "literal length); (c) segment list construction: uriPushPathSegment appends exactly the given range (placeholder for "
                  "empty text), list well formed with the tail being the last node; uriFixEmptyTrailSegment drops exactly the lone "
                  "empty segment of a host-less relative path; (d) [unbounded, CBMC/DFCC, obligations Marks.*] the mark actions: "
                  "for each of the 31 rule functions, on success every one of the 15 recorded marks outside the function's frozen "
                  "may-change set has its entry value (inductive frame proof over the call graph), and the functions that record a "
                  "boundary record exactly `first`, `first + 1` or the position a callee returned, per lookahead character: query, "
                  "fragment, port, scheme end, provisional scheme / user-info start (kept or withdrawn), IPvFuture host, host start "
                  "behind '[', empty host, user-info end and host start at '@'. The host-end/port-end helpers and the IPv6 scanner, "
                  "replaced by contracts there, are shown to satisfy those contracts in their own (bounded) obligations. NOT decided: "
                  "the provisional host-end / port-begin marks set at ':' inside ownHostUserInfoNz / ownPortUserInfo before the "
                  "uriOnExit* helpers decide them, and lemma L2 (the per-function clauses compose to the RFC decomposition)."),
     assumptions=["lemma L2 (composition of the per-function mark clauses == RFC 3986 component ranges): not machine-checked",
                  "provisional host-end / port-begin marks inside ownHostUserInfoNz / ownPortUserInfo: in the may-change frame, values not specified",
                  "the frozen may-change table is read against the RFC by hand", BOUNDED_NOTE],
     level_text="dispatch + mark contracts per rule function (unbounded), IPv4/IPv6 values, host classification, helpers (bounded); composition lemma L2 assumed",
     level_note="partial: see evidence.assumptions")


def write_evidence(prop, tier, seed, results, obmap, violations, kf_lines, wall, findings, fixed):
    m = META.get(prop, {})
    groups = []
    n_p = n_ok = 0
    all_unbounded = True
    cmds = []
    samples = []
    solver = 0.0
    undec = []
    for r in results:
        o = obmap[r["id"]]
        n_p += r["n_props"]
        n_ok += r["n_ok"]
        solver += r.get("solver_s", 0)
        if r["level"] != "P":
            all_unbounded = False
        if r.get("checker_cmd"):
            cmds.append(r["checker_cmd"])
        samples.extend(r.get("samples", [])[:2])
        if r["status"] == "undecided":
            undec.append({"obligation": r["id"], "reason": r["reason"][:400]})
        groups.append({
            "obligation": r["id"], "group": r.get("group"), "status": r["status"], "route": r["route"], "char": r["char"],
            "level": "unbounded (all inputs, all iterations)" if r["level"] == "P" else "bounded - not counted as proved",
            "bounds": r.get("bounds", ""), "functions_under_contract": r.get("functions", []),
            "callees_inlined_and_verified_in_place": o.get("inlined", []), "callees_stubbed_by_contract": o.get("stubs", []),
            "obligations": r["n_props"], "discharged": r["n_ok"], "by_class": r.get("classes", {}),
            "back_end": r.get("backend", ""), "solver_s": round(r.get("solver_s", 0), 2), "wall_s": r.get("wall_s"),
            "checker_cmd": r.get("checker_cmd", ""), "defines": r.get("defines", {}),
            "loop_contracts_injected": r.get("injected", []),
            "input_diversity_markers": r.get("covers", {}),
            "known_finding_assertions": {"present": r.get("kf_total", 0), "still_failing": len(r.get("kf", []))},
        })
    level = "proof" if (all_unbounded and not undec and not violations and m.get("may_claim_proof")) else "other"
    cov = {
        "obligations": n_p, "discharged": n_ok,
        "checker_cmd": cmds[0] if cmds else "",
        "trusted_base": COMMON_TRUST + m.get("trusted", []),
        "explanation": m.get("explanation", "") + ("" if all_unbounded else
                                                   "  [At least one obligation group is bounded: see coverage.groups[].level/bounds; "
                                                   "bounded groups are not counted as proved.]"),
        "groups": groups,
        "samples": samples[:6] if samples else [{"note": "no contract-class obligation sample available"}],
        "solver_s_total": round(solver, 2),
        "undecided": undec,
        "known_findings_reported": kf_lines,
        "fixed_findings_on_record": fixed,
        "violations": violations,
        "exhaustive": False,
    }
    ev = {"property_id": prop, "tier": tier, "seed": seed, "level": level, "coverage": cov,
          "assumptions": [MM_ASSUME] + m.get("assumptions", []), "wall_s": wall, "violations": len(violations)}
    os.makedirs(os.path.join(VERIF, "evidence"), exist_ok=True)
    json.dump(ev, open(os.path.join(VERIF, "evidence", prop + ".json"), "w"), indent=1)
