"""regenerate MANIFEST.json from the registry (vlib/obligations.py, vlib/props.py)"""
import json, os, sys
sys.path.insert(0, os.path.dirname(os.path.dirname(os.path.abspath(__file__))))
from vlib import obligations as O, props as P

VERIF = os.path.dirname(os.path.dirname(os.path.abspath(__file__)))
props = [json.loads(l) for l in open(os.path.join(VERIF, "properties.jsonl"))]
checks, na = [], []
for p in props:
    pid = p["id"]
    m = P.META.get(pid)
    obs = [o for o in O.OBS if pid in o["props"]]
    if m and obs and m.get("claimed", True):
        routes = sorted(set(o["route"] for o in obs))
        checks.append({
            "property_id": pid,
            "quick_cmd": "./check %s --tier quick" % pid,
            "thorough_cmd": "./check %s --tier thorough" % pid,
            "evidence_file": "/verif/evidence/%s.json" % pid,
            "replay_cmd_template": "./check %s --replay {path}" % pid,
            "engine": "cbmc-contracts",
            "level_claimed": {"category": m.get("category", "other"), "text": m["level_text"], "design_ref": m.get("design_ref", "DESIGN.md section 4 " + pid)},
            "level_note": m["level_note"],
            "technique": m.get("technique", "contract-based deductive verification with CBMC 6.11 (routes %s)" % "/".join(routes)),
        })
    else:
        na.append({"property_id": pid, "reason": (m or {}).get("na_reason", "not yet claimed: obligations under construction (DESIGN.md section 9)")})
man = {
    "version": 1,
    "setup_cmd": "./setup.sh",
    "hooks": {"guard": "URIPARSER_VERIF", "enable": "no hooks: contracts attach to the unmodified sources through prior declarations in /verif/contracts and harness-side assertions; loop contracts are injected into a scratch copy on every run (vlib/stage.py)",
              "baseline_off_cmd": "cd /repo && cmake -G Ninja -B _build >/dev/null && cmake --build _build >/dev/null && ctest --test-dir _build -j8 --timeout 900",
              "source_commits": [], "add_only": True},
    "engines": [{"name": "cbmc-contracts", "path": "/verif/check", "serves_properties": [c["property_id"] for c in checks],
                 "kind_free_text": "CBMC 6.11 function contracts (DFCC), loop contracts, harness-asserted contracts on the real C sources; native ASan replay of counterexamples"}],
    "checks": checks,
    "notes": "fix commits in /repo: see known_findings.txt ('fixed:' lines). Exit code 2 of a check means undecided (tool limit), never a violation.",
    "not_applicable": na,
}
json.dump(man, open(os.path.join(VERIF, "MANIFEST.json"), "w"), indent=1)
print("claimed:", [c["property_id"] for c in checks])
