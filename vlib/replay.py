"""Native replay: compile the very harness that CBMC analysed with gcc + ASan/UBSan against the staged (un-injected)
sources, feed it the counterexample's named inputs, and see whether the same assertion (or a sanitizer error) fires."""
import json, os, subprocess, re
from . import stage as S

VERIF = S.VERIF


def write_inputs(path, inputs):
    with open(path, "w") as f:
        for k, v in sorted((inputs or {}).items()):
            if isinstance(v, list):
                vals = [x if isinstance(x, int) else 0 for x in v]
            elif isinstance(v, bool):
                vals = [int(v)]
            elif isinstance(v, int):
                vals = [v]
            else:
                continue
            f.write(k + " " + " ".join(str(x) for x in vals) + "\n")


def native_replay(rep, scratch, workdir):
    """rep: replay record (dict).  returns dict(reproduced, exit, output, cmd)"""
    clean = os.path.join(scratch, "clean")
    if rep.get("watch"):
        # ghost-observer obligations: the native build needs the same VWATCH() calls the verifier saw
        import shutil
        wsrc = os.path.join(workdir, "wsrc")
        if not os.path.exists(wsrc):
            shutil.copytree(clean, wsrc)
            S.inject_watch(wsrc, rep["watch"])
        clean = wsrc
    harness = os.path.join(VERIF, "harness", rep["harness"])
    defines = dict(rep.get("defines", {}))
    defines.pop("VCBMC", None)
    defines["VREPLAY"] = 1
    defines["VENTRY"] = rep.get("entry", "harness")
    exe = os.path.join(workdir, "rp")
    cmd = ["gcc", "-g", "-O0", "-w", "-fsanitize=address,undefined", "-fno-sanitize-recover=undefined",
           "-I", os.path.join(clean, "src"), "-I", os.path.join(clean, "include"), "-I", os.path.join(VERIF, "contracts"),
           "-I", os.path.join(VERIF, "spec"), "-I", os.path.join(VERIF, "harness")]
    cmd += ["-D%s=%s" % (k, v) for k, v in sorted(defines.items())]
    cmd += [harness, os.path.join(VERIF, "replay", "vnative.c"), "-o", exe]
    p = subprocess.run(cmd, stdout=subprocess.PIPE, stderr=subprocess.STDOUT, cwd=workdir)
    if p.returncode != 0:
        return {"reproduced": False, "exit": None, "cmd": " ".join(cmd),
                "output": "native build of the harness failed (harness uses verifier-only primitives):\n"
                          + p.stdout.decode("utf-8", "replace")[-1500:]}
    inp = os.path.join(workdir, "inputs.txt")
    write_inputs(inp, rep.get("inputs"))
    env = dict(os.environ)
    env["ASAN_OPTIONS"] = "detect_leaks=0:abort_on_error=0"
    try:
        q = subprocess.run([exe, inp], stdout=subprocess.PIPE, stderr=subprocess.STDOUT, cwd=workdir, timeout=60, env=env)
        out = q.stdout.decode("utf-8", "replace")
        code = q.returncode
    except subprocess.TimeoutExpired as e:
        out = (e.stdout or b"").decode("utf-8", "replace") + "\n[native replay timed out after 60 s]"
        code = -9
    fired = re.findall(r"REPLAY-FAIL: (.*)", out)
    san = bool(re.search(r"ERROR: AddressSanitizer|runtime error:|LeakSanitizer", out))
    assumed_false = "REPLAY-ASSUME-FALSE" in out
    crashed = code not in (0, 1, 3) and not assumed_false
    return {"reproduced": bool(fired) or san or crashed, "exit": code, "fired": fired, "sanitizer": san,
            "assume_false": assumed_false, "cmd": "%s %s" % (" ".join(cmd), inp), "output": out[-4000:]}


def make_record(prop, res, ob, failure):
    return {"property": prop, "obligation": "%s/%s" % (ob["id"], failure["class"]), "obligation_id": ob["id"],
            "failed": {k: failure.get(k) for k in ("property", "description", "class", "location", "status")},
            "all_failed": [f.get("description") for f in res["failures"]][:20],
            "harness": ob["harness"], "entry": ob.get("entry", "harness"), "char": ob.get("char", "A"),
            "route": ob["route"], "defines": res.get("defines", {}), "inputs": failure.get("inputs", {}), "watch": list(ob.get("watch", [])),
            "verifier": {"cmd": res.get("checker_cmd"), "trace_tail": failure.get("trace_tail", []),
                         "messages": res.get("messages_tail", [])}}
