"""Registry of obligations.  One entry = one CBMC run on code staged from /repo's working tree.

keys: id, props (property ids it serves), route (D/N/H), harness, entry, char (A/W), tier ("quick": both tiers,
"thorough": thorough only), defines, unwindset, level ("P" unbounded / "B" bounded), bounds (text), functions
(under contract / verified in place), stubs (callees replaced by contract stubs), kf (known-finding ids it can exhibit),
timeout_s, mem_gb.  Values may be callables of the tier.
"""

Q = "quick"
T = "thorough"


def by_tier(q, t):
    return lambda tier: q if tier == Q else t


OBS = []


def ob(**kw):
    kw.setdefault("tier", Q)
    kw.setdefault("entry", "harness")
    kw.setdefault("char", "A")
    OBS.append(kw)
    return kw


# ----------------------------------------------------------------------------------------------------------------
# C11  EqualsUri / CompareRange
for ch in ("A", "W"):
    ob(id="EqualsUri.%s.H" % ch, props=["C11", "C12", "C19", "C20"], route="H", harness="c11_equals.c", char=ch,
       group="EqualsUri <=> view equality, NULL handling, empty frame",
       defines=by_tier({"VM": 2, "VL": 2, "VT": 4}, {"VM": 3, "VL": 3, "VT": 6}),
       unwindset=by_tier({"uri%s.0" % ("EqualsUri" + ch): 3, "strncmp.0": 3, "wcsncmp.0": 3, "memcmp.0": 17},
                         {"uri%s.0" % ("EqualsUri" + ch): 4, "strncmp.0": 4, "wcsncmp.0": 4, "memcmp.0": 17}),
       level="B", bounds=by_tier("<=2 segments, <=2 characters per component", "<=3 segments, <=3 characters per component"),
       functions=["uriEqualsUri" + ch, "uriCompareRange" + ch], stubs=[], inlined=["uriCompareRange" + ch],
       kf=["C11-abspath-ignored-when-scheme-present"],
       timeout_s=by_tier(300, 1800), mem_gb=8)

for ch in ("A", "W"):
    ob(id="CompareRange.%s.D" % ch, props=["C11", "C19"], route="D", harness="d_common.c", entry="h_CompareRange", char=ch,
       group="uriCompareRange function contract (all lengths)",
       enforce=["uriCompareRange" + ch], replace=["strncmp" if ch == "A" else "wcsncmp"],
       level="P", bounds="none (range lengths symbolic < 2^30)",
       functions=["uriCompareRange" + ch], stubs=["strncmp/wcsncmp (assumed libc contract, call logged)"],
       require_classes={"contract.post": 4}, timeout_s=300, mem_gb=6)

# ----------------------------------------------------------------------------------------------------------------
# C15  completed memory manager (src/UriMemory.c); not character dependent
def c15(fn, entry, replace=(), **kw):
    ob(id="%s.D" % fn, props=["C15"] + kw.pop("more_props", []), route="D", harness="d_memory.c", entry=entry, char="A",
       group="%s function contract" % fn, enforce=[fn], replace=list(replace), level="P", bounds="none",
       functions=[fn], timeout_s=300, mem_gb=6, **kw)


c15("uriDecorateMalloc", "h_DecorateMalloc", restrict_fp=["uriDecorateMalloc.function_pointer_call.1/be_malloc_contract"], stubs=["backend->malloc (assumed contract be_malloc_contract)"])
c15("uriDecorateFree", "h_DecorateFree", restrict_fp=["uriDecorateFree.function_pointer_call.1/be_free_contract"], stubs=["backend->free (assumed contract be_free_contract)"])
c15("uriEmulateCalloc", "h_EmulateCalloc", replace=["memset"], backend="cvc5", restrict_fp=["uriEmulateCalloc.function_pointer_call.1/mm_malloc_contract"], stubs=["memory->malloc (assumed contract mm_malloc_contract)", "memset (assumed libc contract, ghost-indexed)"])
c15("uriEmulateReallocarray", "h_EmulateReallocarray", backend="cvc5", restrict_fp=["uriEmulateReallocarray.function_pointer_call.1/mm_realloc_contract"], stubs=["memory->realloc (contract mm_realloc_contract: any result, call logged)"])
c15("uriMemoryManagerIsComplete", "h_IsComplete", more_props=["C13"])
c15("uriDecorateRealloc", "h_DecorateRealloc", replace=["memcpy"],
    restrict_fp=["uriDecorateRealloc.function_pointer_call.1/mm_malloc_contract", "uriDecorateRealloc.function_pointer_call.2/mm_free_contract",
                 "uriDecorateRealloc.function_pointer_call.3/mm_malloc_contract", "uriDecorateRealloc.function_pointer_call.4/mm_free_contract"],
    stubs=["memory->malloc (mm_malloc_contract)", "memory->free (mm_free_contract: requires exactly the hdr block's client pointer)", "memcpy (assumed libc contract, ghost-indexed)"])
c15("uriCompleteMemoryManager", "h_Complete")
ob(id="lemma.mul_overflow_check.Lean", props=["C15"], route="L", harness="", cmd=["lean", "{VERIF}/spec/lemmas/MulOverflow.lean"],
   group="lemma mul_overflow_check: (n != 0 && ((n*s) mod 2^64)/n != s) <=> n*s >= 2^64, all n,s < 2^64 (Lean 4 kernel)",
   level="P", bounds="none", functions=[], backend="lean 4.33", timeout_s=300, mem_gb=8)
