"""Registry of obligations.  One entry = one CBMC run on code staged from /repo's working tree.

keys: id, props (property ids it serves), route (D/N/H), harness, entry, char (A/W), tier ("quick": both tiers,
"thorough": thorough only), defines, unwindset, level ("P" unbounded / "B" bounded), bounds (text), functions
(under contract / verified in place), stubs (callees replaced by contract stubs), kf (known-finding ids it can exhibit),
timeout_s, mem_gb.  Values may be callables of the tier.
"""

Q = "quick"
T = "thorough"


def by_tier(q, t):
    return lambda tier: q if tier == Q else t


OBS = []


def ob(**kw):
    kw.setdefault("tier", Q)
    kw.setdefault("entry", "harness")
    kw.setdefault("char", "A")
    OBS.append(kw)
    return kw


# ----------------------------------------------------------------------------------------------------------------
# C11  EqualsUri / CompareRange
for ch in ("A", "W"):
    ob(id="EqualsUri.%s.H" % ch, props=["C11", "C12", "C19", "C20"], route="H", harness="c11_equals.c", char=ch,
       group="EqualsUri <=> view equality, NULL handling, empty frame",
       defines=by_tier({"VM": 2, "VL": 2, "VT": 4}, {"VM": 3, "VL": 3, "VT": 6}),
       unwindset=by_tier({"uri%s.0" % ("EqualsUri" + ch): 3, "strncmp.0": 3, "wcsncmp.0": 3, "memcmp.0": 17},
                         {"uri%s.0" % ("EqualsUri" + ch): 4, "strncmp.0": 4, "wcsncmp.0": 4, "memcmp.0": 17}),
       level="B", bounds=by_tier("<=2 segments, <=2 characters per component", "<=3 segments, <=3 characters per component"),
       functions=["uriEqualsUri" + ch, "uriCompareRange" + ch], stubs=[], inlined=["uriCompareRange" + ch],
       kf=["C11-abspath-ignored-when-scheme-present"],
       timeout_s=by_tier(300, 1800), mem_gb=8)
