"""Registry of obligations.  One entry = one CBMC run on code staged from /repo's working tree.

keys: id, props (property ids it serves), route (D/N/H), harness, entry, char (A/W), tier ("quick": both tiers,
"thorough": thorough only), defines, unwindset, level ("P" unbounded / "B" bounded), bounds (text), functions
(under contract / verified in place), stubs (callees replaced by contract stubs), kf (known-finding ids it can exhibit),
timeout_s, mem_gb.  Values may be callables of the tier.
"""

Q = "quick"
T = "thorough"


def by_tier(q, t):
    return lambda tier: q if tier == Q else t


OBS = []


def ob(**kw):
    kw.setdefault("tier", Q)
    kw.setdefault("entry", "harness")
    kw.setdefault("char", "A")
    OBS.append(kw)
    return kw


# ----------------------------------------------------------------------------------------------------------------
# C11  EqualsUri / CompareRange
for ch in ("A", "W"):
    ob(id="EqualsUri.%s.H" % ch, props=["C11", "C12", "C19", "C20"], route="H", harness="c11_equals.c", char=ch,
       group="EqualsUri <=> view equality, NULL handling, empty frame",
       defines=by_tier({"VM": 2, "VL": 2, "VT": 4}, {"VM": 3, "VL": 3, "VT": 6}),
       unwindset=by_tier({"uri%s.*" % ("EqualsUri" + ch): 3, "strncmp.*": 3, "wcsncmp.*": 3, "memcmp.*": 17},
                         {"uri%s.*" % ("EqualsUri" + ch): 4, "strncmp.*": 4, "wcsncmp.*": 4, "memcmp.*": 17}),
       level="B", bounds=by_tier("<=2 segments, <=2 characters per component", "<=3 segments, <=3 characters per component"),
       functions=["uriEqualsUri" + ch, "uriCompareRange" + ch], stubs=[], inlined=["uriCompareRange" + ch],
       kf=["C11-abspath-ignored-when-scheme-present"],
       timeout_s=by_tier(300, 1800), mem_gb=8)

for ch in ("A", "W"):
    ob(id="CompareRange.%s.D" % ch, props=["C11", "C19"], route="D", harness="d_common.c", entry="h_CompareRange", char=ch,
       group="uriCompareRange function contract (all lengths)",
       enforce=["uriCompareRange" + ch], replace=["strncmp" if ch == "A" else "wcsncmp"],
       level="P", bounds="none (range lengths symbolic < 2^30)",
       functions=["uriCompareRange" + ch], stubs=["strncmp/wcsncmp (assumed libc contract, call logged)"],
       require_classes={"contract.post": 4}, timeout_s=300, mem_gb=6)

# ----------------------------------------------------------------------------------------------------------------
# C15  completed memory manager (src/UriMemory.c); not character dependent
def c15(fn, entry, replace=(), **kw):
    ob(id="%s.D" % fn, props=["C15"] + kw.pop("more_props", []), route="D", harness="d_memory.c", entry=entry, char="A",
       group="%s function contract" % fn, enforce=[fn], replace=list(replace), level="P", bounds="none",
       functions=[fn], timeout_s=300, mem_gb=6, **kw)


c15("uriDecorateMalloc", "h_DecorateMalloc", restrict_fp=["uriDecorateMalloc.function_pointer_call.1/be_malloc_contract"], stubs=["backend->malloc (assumed contract be_malloc_contract)"])
c15("uriDecorateFree", "h_DecorateFree", restrict_fp=["uriDecorateFree.function_pointer_call.1/be_free_contract"], stubs=["backend->free (assumed contract be_free_contract)"])
c15("uriEmulateCalloc", "h_EmulateCalloc", replace=["memset"], backend="cvc5", restrict_fp=["uriEmulateCalloc.function_pointer_call.1/mm_malloc_contract"], stubs=["memory->malloc (assumed contract mm_malloc_contract)", "memset (assumed libc contract, ghost-indexed)"])
c15("uriEmulateReallocarray", "h_EmulateReallocarray", backend="cvc5", restrict_fp=["uriEmulateReallocarray.function_pointer_call.1/mm_realloc_contract"], stubs=["memory->realloc (contract mm_realloc_contract: any result, call logged)"])
c15("uriMemoryManagerIsComplete", "h_IsComplete", more_props=["C13"])
c15("uriDecorateRealloc", "h_DecorateRealloc", replace=["memcpy"],
    restrict_fp=["uriDecorateRealloc.function_pointer_call.1/mm_malloc_contract", "uriDecorateRealloc.function_pointer_call.2/mm_free_contract",
                 "uriDecorateRealloc.function_pointer_call.3/mm_malloc_contract", "uriDecorateRealloc.function_pointer_call.4/mm_free_contract"],
    stubs=["memory->malloc (mm_malloc_contract)", "memory->free (mm_free_contract: requires exactly the hdr block's client pointer)", "memcpy (assumed libc contract, ghost-indexed)"])
c15("uriCompleteMemoryManager", "h_Complete")
ob(id="lemma.mul_overflow_check.Lean", props=["C15"], route="L", harness="", cmd=["lean", "{VERIF}/spec/lemmas/MulOverflow.lean"],
   group="lemma mul_overflow_check: (n != 0 && ((n*s) mod 2^64)/n != s) <=> n*s >= 2^64, all n,s < 2^64 (Lean 4 kernel)",
   level="P", bounds="none", functions=[], backend="lean 4.33", timeout_s=300, mem_gb=8)

# ----------------------------------------------------------------------------------------------------------------
# C06 (+C07,C12,C13,C14)  reference resolution, whole operation with real callees inlined
RESOLVE_FUNCS = ["uriAddBaseUriExMm%s", "uriAddBaseUriImpl%s", "uriCopyAuthority%s", "uriCopyPath%s", "uriMergePath%s",
                 "uriResolveAbsolutePathFlag%s", "uriRemoveDotSegmentsAbsolute%s", "uriRemoveDotSegmentsEx%s", "uriFixAmbiguity%s",
                 "uriFixEmptyTrailSegment%s", "uriFreeUriMembersMm%s", "uriCompareRange%s", "uriIsHostSet%s", "uriResetUri%s"]


def resolve_uw(ch, m, l):
    n = 2 * m + 3
    return {"uriCopyPath%s.*" % ch: m + 1, "uriMergePath%s.*" % ch: m + 1, "uriRemoveDotSegmentsEx%s.0" % ch: l + 1,
            "uriRemoveDotSegmentsEx%s.1" % ch: 2 * m + 1, "uriFreeUriMembersMm%s.*" % ch: n + 1,
            "uriAddBaseUriExMm%s.*" % ch: 2, "strncmp.*": l + 1, "wcsncmp.*": l + 1}


for ch in ("A", "W"):
    ob(id="AddBaseUri.%s.H" % ch, props=["C06", "C07", "C12", "C13", "C14", "C19", "C20"], route="H", harness="c06_resolve.c", char=ch,
       group="uriAddBaseUriExMm whole operation against spec_resolve (RFC 3986 5.2.2), ledger, fault injection, frames",
       defines=by_tier({"VM": 2, "VL": 2, "VT": 4}, {"VM": 3, "VL": 2, "VT": 4}),
       unwindset=by_tier(resolve_uw(ch, 2, 2), resolve_uw(ch, 3, 2)),
       level="B", bounds=by_tier("base and reference: <=2 segments each, <=2 characters per component; every allocation request may fail",
                                 "base and reference: <=3 segments each, <=2 characters per component; every allocation request may fail"),
       functions=[f % ch for f in RESOLVE_FUNCS], inlined=[f % ch for f in RESOLVE_FUNCS[1:]],
       stubs=["memory manager (ledger stub harness/vmm.h)"],
       timeout_s=by_tier(900, 7200), mem_gb=by_tier(10, 24))

# ----------------------------------------------------------------------------------------------------------------
# C05/C04  recomposition (ToStringEngine), split by host kind
HKNAME = {0: "nohost", 1: "regname", 2: "ip4", 3: "ip6", 4: "ipfuture"}
for ch in ("A", "W"):
    csz = 1 if ch == "A" else 4
    for hk in range(5):
        ob(id="ToString.cap.%s.%s.H" % (HKNAME[hk], ch), props=["C05", "C12", "C19", "C20"], route="H", harness="c05_tostring.c", char=ch,
           group="uriToString/uriToStringCharsRequired over uriToStringEngine: exact sizes, capacity protocol, no write beyond capacity",
           defines=by_tier({"VM": 2, "VL": 2, "VT": 4, "HKMIN": hk, "HKMAX": hk}, {"VM": 3, "VL": 3, "VT": 6, "HKMIN": hk, "HKMAX": hk}),
           unwindset={"uriToStringEngine%s.*" % ch: 17},
           level="B", bounds=by_tier("<=2 segments, <=2 characters per component; every capacity from -2 to length+3 (destination block of exactly that size)",
                                     "<=3 segments, <=3 characters per component; every capacity from -2 to length+3"),
           functions=["uriToString" + ch, "uriToStringCharsRequired" + ch, "uriToStringEngine" + ch],
           inlined=["uriIsHostSet" + ch, "uriHexToLetterEx" + ch], stubs=["memcpy (check-only stub asserting w_ok/r_ok of the whole slice)"],
           timeout_s=by_tier(900, 3600), mem_gb=by_tier(10, 20))
        ob(id="ToString.content.%s.%s.H" % (HKNAME[hk], ch), props=["C04", "C19"], route="H", harness="c05_tostring.c", char=ch,
           group="uriToString content == RFC 3986 5.3 recomposition of the view (ghost-indexed)",
           defines=by_tier({"VM": 2, "VL": 2, "VT": 4, "HKMIN": hk, "HKMAX": hk, "V_CONTENT": 1}, {"VM": 3, "VL": 3, "VT": 6, "HKMIN": hk, "HKMAX": hk, "V_CONTENT": 1}),
           unwindset=by_tier({"uriToStringEngine%s.*" % ch: 17, "memcpy.*": 4}, {"uriToStringEngine%s.*" % ch: 17, "memcpy.*": 4}),
           level="B", bounds=by_tier("<=2 segments, <=2 characters per component; ample capacity", "<=3 segments, <=3 characters per component; ample capacity"),
           functions=["uriToString" + ch, "uriToStringEngine" + ch],
           inlined=["uriIsHostSet" + ch, "uriHexToLetterEx" + ch], stubs=["memcpy (byte loop, harness/vlibc.h)"],
           timeout_s=by_tier(900, 3600), mem_gb=by_tier(10, 20))

# ----------------------------------------------------------------------------------------------------------------
# C08 (+C09,C07,C12,C13,C14)  syntax-based normalization, whole operation with real callees inlined
NORM_FUNCS = ["uriNormalizeSyntaxExMm%s", "uriNormalizeSyntaxMaskRequiredEx%s", "uriNormalizeSyntaxEngine%s", "uriMakeOwnerEngine%s",
              "uriMakeRangeOwner%s", "uriPreventLeakage%s", "uriLowercaseInplace%s", "uriLowercaseMalloc%s",
              "uriFixPercentEncodingEngine%s", "uriFixPercentEncodingInplace%s", "uriFixPercentEncodingMalloc%s",
              "uriContainsUppercaseLetters%s", "uriContainsUglyPercentEncoding%s", "uriRemoveDotSegmentsEx%s",
              "uriFixEmptyTrailSegment%s", "uriFreeUriMembersMm%s", "uriHexdigToInt%s", "uriHexToLetter%s"]


def norm_uw(ch, m, l):
    return {"uriContainsUppercaseLetters%s.*" % ch: l + 1, "uriContainsUglyPercentEncoding%s.*" % ch: l + 1,
            "uriLowercaseInplace%s.*" % ch: l + 1, "uriLowercaseMalloc%s.*" % ch: l + 1,
            "uriFixPercentEncodingEngine%s.*" % ch: l + 1, "uriMakeOwnerEngine%s.*" % ch: m + 2,
            "uriPreventLeakage%s.*" % ch: m + 2, "uriNormalizeSyntaxEngine%s.*" % ch: m + 2,
            "uriRemoveDotSegmentsEx%s.0" % ch: l + 1, "uriRemoveDotSegmentsEx%s.1" % ch: m + 1,
            "uriFreeUriMembersMm%s.*" % ch: m + 3, "uriNormalizeSyntaxExMm%s.*" % ch: 2, "memcpy.*": l + 1}


NORM_SPLITS = [  # name, V_COMPS, VM, VL, VT
    ("scheme-query-fragment", 1 | 16 | 32, 1, 3, 4),
    ("authority", 2 | 4 | 64, 1, 3, 4),
    ("path", 1 | 8, 2, 3, 4),
    ("all-short", 127, 1, 1, 3),
    ("pct2", 16, 1, 6, 6),      # query only, six characters of '%' and hex digits: two adjacent percent-encodings
    ("netpath", 4 | 8, 2, 2, 3),  # host and path: network-path references and authority-form URIs with two segments ('//h/a/..')
    ("dots", 8, 3, 2, 3),       # path only, three segments of up to two characters over a three-character text ('../../..', 'a/../..', ...)
]
NORM_KF = ["C08-host-percent-encoding-lowercased", "C08-network-path-reference-treated-as-relative", "C09-relative-path-collapses", "C07-normalize-relative-path-reparse",
           "C14-normalize-borrowed-path-leak"]
for ch in ("A", "W"):
    for (nm, comps, vm, vl, vt) in NORM_SPLITS:
        if nm not in ("dots", "netpath") and not (nm == "pct2" and ch == "W"): ob(id="NormalizeMaskRequired.%s.%s.H" % (nm, ch), props=["C08", "C12", "C19", "C20"], route="H", harness="c08_normalize.c", char=ch,
           group="uriNormalizeSyntaxMaskRequiredEx: reported mask is sufficient (bit clear => component already normal), read-only",
           defines=dict({"VM": vm, "VL": vl, "VT": vt, "V_OWNED": 0, "VSTUB_MEMCPY": 3, "V_PART": 1, "V_COMPS": comps, "VU_SLACK": 2}, **({"V_POOL_PCT": 1} if nm == "pct2" else {})),
           unwindset=norm_uw(ch, vm, vl), level="B",
           bounds="components admitted: %s; <=%d segments, <=%d characters per component" % (nm, vm, vl),
           functions=["uriNormalizeSyntaxMaskRequiredEx" + ch, "uriNormalizeSyntaxEngine" + ch],
           inlined=["uriContainsUppercaseLetters" + ch, "uriContainsUglyPercentEncoding" + ch, "uriHexdigToInt" + ch, "uriIsUnreserved"],
           stubs=["memcpy (one whole Uri structure, structure assignment)"], kf=NORM_KF, timeout_s=by_tier(900, 3600), mem_gb=8)
        for owned in ((0, 1) if ch == "A" else ()):     # W instances exceed the memory budget at these bounds (DESIGN "W pass")
            if nm == "pct2" or (owned and nm in ("dots", "netpath")):
                continue
            if owned and nm == "path":
                vl = 2      # the owned/path instance does not fit into memory with 3-character segments (percent-encodings in
                            # segments are covered by the borrowed/path instance: the in-place and the copying repair share one engine)
            ob(id="NormalizeSyntax.%s.%s.%s.H" % ("owned" if owned else "borrowed", nm, ch),
               props=["C08", "C09", "C07", "C12", "C13", "C14", "C19", "C20"], route="H", harness="c08_normalize.c", char=ch,
               group="uriNormalizeSyntaxExMm whole operation against the RFC 3986 6.2.2 normal form, ownership, ledger, fault injection",
               defines={"VM": vm, "VL": vl, "VT": vt, "V_OWNED": owned, "VSTUB_MEMCPY": 1, "V_PART": 2, "V_COMPS": comps},
               unwindset=norm_uw(ch, vm, vl),
               level="B", bounds="components admitted: %s; <=%d segments, <=%d characters per component, symbolic mask (all 64), every allocation request may fail" % (nm, vm, vl),
               functions=[f % ch for f in NORM_FUNCS], inlined=[f % ch for f in NORM_FUNCS[2:]],
               stubs=["memory manager (ledger stub)", "memcpy (element loop)"], kf=NORM_KF,
               timeout_s=by_tier(1500, 7200), mem_gb=by_tier(14, 24))

# ----------------------------------------------------------------------------------------------------------------
# C10 (+C07,C12,C13,C14)  reference creation, whole operation with real callees inlined
SHORTEN_FUNCS = ["uriRemoveBaseUriMm%s", "uriRemoveBaseUriImpl%s", "uriEqualsAuthority%s", "uriAppendSegment%s", "uriCopyAuthority%s",
                 "uriCopyPath%s", "uriFixAmbiguity%s", "uriCompareRange%s", "uriFreeUriMembersMm%s", "uriResetUri%s"]


def shorten_uw(ch, m, l):
    return {"uriRemoveBaseUriImpl%s.*" % ch: max(m, l) + 2, "uriCopyPath%s.*" % ch: m + 1, "uriFreeUriMembersMm%s.*" % ch: 2 * m + 3,
            "uriRemoveBaseUriMm%s.*" % ch: 2, "strncmp.*": l + 1, "wcsncmp.*": l + 1, "memcmp.*": 17}


for ch in ("A", "W"):
    ob(id="RemoveBaseUri.%s.H" % ch, props=["C10", "C07", "C12", "C13", "C14", "C19", "C20"], route="H", harness="c10_shorten.c", char=ch,
       group="uriRemoveBaseUriMm whole operation: inverse of spec_resolve, omission rules, error codes, ledger, fault injection, frames",
       defines=by_tier({"VM": 2, "VL": 2, "VT": 4}, {"VM": 3, "VL": 2, "VT": 4}),
       unwindset=by_tier(shorten_uw(ch, 2, 2), shorten_uw(ch, 3, 2)),
       level="B", bounds=by_tier("source and base: <=2 segments each, <=2 characters per component; every allocation request may fail",
                                 "source and base: <=3 segments each, <=2 characters per component; every allocation request may fail"),
       functions=[f % ch for f in SHORTEN_FUNCS], inlined=[f % ch for f in SHORTEN_FUNCS[1:]],
       stubs=["memory manager (ledger stub)"],
       kf=["C10-authority-compared-by-host-only", "C10-empty-reference-keeps-base-query", "C10-hostless-rootedness-differs", "C10-domainroot-makes-rootless-source-absolute", "C10-empty-source-path", "C10-base-with-inner-dot-segments"],
       timeout_s=by_tier(1500, 7200), mem_gb=by_tier(10, 24))

# ----------------------------------------------------------------------------------------------------------------
# C20 / C12  ghost observers: read-only inputs never change, not even transiently (DESIGN 10.9)
ALL_SRC = ["UriCommon.c", "UriCompare.c", "UriEscape.c", "UriFile.c", "UriIp4.c", "UriIp4Base.c", "UriMemory.c", "UriNormalize.c",
           "UriNormalizeBase.c", "UriParse.c", "UriParseBase.c", "UriQuery.c", "UriRecompose.c", "UriResolve.c", "UriShorten.c"]
WATCH_GROUP = "ghost observer after every expression statement of the library: the shared read-only inputs keep their entry values at every statement boundary"
for ch in ("A", "W"):
    def _uw(d):
        d = dict(d)
        d.setdefault("memcpy.*", 17)
        d.setdefault("memcmp.*", 17)
        return d
    ob(id="Watch.AddBaseUri.%s.H" % ch, props=["C20", "C12"], route="H", harness="c20_watch.c", entry="h_w_addbase", char=ch, watch=ALL_SRC,
       group=WATCH_GROUP, defines=by_tier({"VM": 2, "VL": 1, "VT": 3, "V_WATCH": 1}, {"VM": 3, "VL": 1, "VT": 3, "V_WATCH": 1}),
       unwindset=by_tier(_uw(resolve_uw(ch, 2, 1)), _uw(resolve_uw(ch, 3, 1))), level="B",
       bounds=by_tier("reference and base: <=2 segments each, <=1 character per component; every allocation request may fail; one statement boundary = one observation",
                      "reference and base: <=3 segments each, <=1 character per component"),
       functions=[f % ch for f in RESOLVE_FUNCS], inlined=[f % ch for f in RESOLVE_FUNCS[1:]], stubs=["memory manager (ledger stub)"],
       timeout_s=by_tier(900, 3600), mem_gb=by_tier(10, 24))
    ob(id="Watch.RemoveBaseUri.%s.H" % ch, props=["C20", "C12"], route="H", harness="c20_watch.c", entry="h_w_removebase", char=ch, watch=ALL_SRC,
       group=WATCH_GROUP, defines=by_tier({"VM": 2, "VL": 1, "VT": 3, "V_WATCH": 1}, {"VM": 3, "VL": 1, "VT": 3, "V_WATCH": 1}),
       unwindset=by_tier(_uw(shorten_uw(ch, 2, 1)), _uw(shorten_uw(ch, 3, 1))), level="B",
       bounds=by_tier("source and base: <=2 segments each, <=1 character per component; every allocation request may fail",
                      "source and base: <=3 segments each, <=1 character per component"),
       functions=[f % ch for f in SHORTEN_FUNCS], inlined=[f % ch for f in SHORTEN_FUNCS[1:]], stubs=["memory manager (ledger stub)"],
       timeout_s=by_tier(900, 3600), mem_gb=by_tier(10, 24))
    ob(id="Watch.Readers.%s.H" % ch, props=["C20", "C12"], route="H", harness="c20_watch.c", entry="h_w_readers", char=ch, watch=ALL_SRC,
       group=WATCH_GROUP, defines=by_tier({"VM": 2, "VL": 1, "VT": 3, "V_WATCH": 1, "VSTUB_MEMCPY": 1, "VU_SLACK": 2}, {"VM": 2, "VL": 2, "VT": 4, "V_WATCH": 1, "VSTUB_MEMCPY": 1, "VU_SLACK": 2}),
       unwindset=_uw({"uriToStringEngine%s.*" % ch: 17, "uriEqualsUri%s.*" % ch: 4, "strncmp.*": 3, "wcsncmp.*": 3,
                      }),
       level="B", bounds=by_tier("two URIs of <=2 segments, <=1 character per component, every capacity 0..64", "two URIs of <=2 segments, <=2 characters per component"),
       functions=["uriEqualsUri" + ch, "uriToStringCharsRequired" + ch, "uriToString" + ch],
       inlined=["uriToStringEngine" + ch, "uriCompareRange" + ch], stubs=["memcpy (element loop)"],
       timeout_s=by_tier(900, 3600), mem_gb=by_tier(10, 24))
    ob(id="Watch.NormalizeMaskRequired.%s.H" % ch, props=["C20", "C12"], route="H", harness="c20_watch.c", entry="h_w_normmask", char=ch, watch=ALL_SRC,
       group=WATCH_GROUP, defines={"VM": 2, "VL": 2, "VT": 4, "V_WATCH": 1, "VSTUB_MEMCPY": 3, "VU_SLACK": 2},
       unwindset=norm_uw(ch, 2, 2), level="B", bounds="one URI of <=2 segments, <=2 characters per component",
       functions=["uriNormalizeSyntaxMaskRequiredEx" + ch], inlined=["uriNormalizeSyntaxEngine" + ch], stubs=["memcpy (one whole Uri structure, structure assignment)"],
       timeout_s=by_tier(900, 3600), mem_gb=10)
    ob(id="Watch.ComposeQuery.%s.H" % ch, props=["C20", "C12"], route="H", harness="c20_watch.c", entry="h_w_compose", char=ch, watch=ALL_SRC,
       group=WATCH_GROUP, defines={"VM": 1, "VL": 1, "VT": 2, "VI": 2, "VS": 1, "V_WATCH": 1, "VSTUB_MEMCPY": 1},
       unwindset=_uw({"uriComposeQueryEngine%s.*" % ch: 3, "uriEscapeEx%s.*" % ch: 3, "strlen.*": 3, "wcslen.*": 3}),
       level="B", bounds="2 items, keys/values of at most 1 character", functions=["uriComposeQueryCharsRequiredEx" + ch, "uriComposeQueryEx" + ch],
       inlined=["uriComposeQueryEngine" + ch, "uriEscapeEx" + ch], stubs=[], timeout_s=by_tier(900, 3600), mem_gb=10)

# ----------------------------------------------------------------------------------------------------------------
# C16  percent-escaping: unbounded safety/shape obligations by loop contracts (route N)
for ch in ("A", "W"):
    if ch == "A": ob(id="EscapeEx.%s.N" % ch, props=["C16", "C19", "C20"], route="N", harness="c16_escape_n.c", entry="h_escape", char=ch,
       group="uriEscapeEx: bounds (exact 3n+1/6n+1 buffer), terminator, charset and complete upper-case triplets, all lengths, both flags, both end modes",
       loops=["UriEscape.loops"], loops_only=["EscapeEx"], level="P", bounds="input length symbolic up to 100000 characters (size of the CBMC object, not an unwinding bound)",
       functions=["uriEscapeEx" + ch], inlined=["uriHexToLetter" + ch, "uriHexToLetterEx" + ch], stubs=[],
       require_classes={"loop.contract": 3}, timeout_s=by_tier(1500, 3600), mem_gb=20)
    ob(id="EscapeEx.corner.%s.H" % ch, props=["C16", "C19"], route="H", harness="c16_escape_n.c", entry="h_escape_corner", char=ch,
       group="uriEscapeEx NULL / aliasing corner cases", level="P", bounds="none (loop-free paths)",
       functions=["uriEscapeEx" + ch], timeout_s=300, mem_gb=4)
    ob(id="UnescapeInPlaceEx.%s.N" % ch, props=["C16", "C19", "C20"], route="N", harness="c16_escape_n.c", entry="h_unescape", char=ch,
       group="uriUnescapeInPlaceEx: write <= read <= terminator, never lengthens, look-ahead stops at the terminator, returns the new terminator",
       loops=["UriEscape.loops"], loops_only=["UnescapeInPlaceEx"], level="P", bounds="string length symbolic up to 100000 characters",
       functions=["uriUnescapeInPlaceEx" + ch], inlined=["uriHexdigToInt" + ch], stubs=[],
       require_classes={"loop.contract": 3}, timeout_s=by_tier(1500, 3600), mem_gb=20)

# ----------------------------------------------------------------------------------------------------------------
# C03 (+C01/C02 safety half)  parser rule functions: interface contract by induction on the recursion (route D)
RULES4 = ["ParseAuthority", "ParseHierPart", "ParseIpFutLoop", "ParseIpFutStopGo", "ParseIpFuture", "ParseIpLit2", "ParseMustBeSegmentNzNc",
          "ParseOwnHost", "ParseOwnHost2", "ParseOwnHostUserInfo", "ParseOwnHostUserInfoNz", "ParseOwnPortUserInfo", "ParseOwnUserInfo",
          "ParsePartHelperTwo", "ParsePathAbsEmpty", "ParsePathAbsNoLeadSlash", "ParsePathRootless", "ParsePchar", "ParsePctEncoded",
          "ParsePctSubUnres", "ParseQueryFrag", "ParseSegment", "ParseSegmentNz", "ParseSegmentNzNcOrScheme2", "ParseUriReference",
          "ParseUriTail", "ParseUriTailTwo", "ParseZeroMoreSlashSegs"]
RULES3 = ["ParseAuthorityTwo", "ParseHexZero", "ParsePort"]
PARSE_HELPERS = ["StopSyntax", "StopMalloc", "PushPathSegment", "FixEmptyTrailSegment", "OnExitOwnHost2", "OnExitOwnHostUserInfo",
                 "OnExitOwnPortUserInfo", "OnExitSegmentNzNcOrScheme2", "OnExitPartHelperTwo", "ParseIPv6address2"]
for ch in ("A", "W"):
    allf = ["uri%s%s" % (f, ch) for f in RULES4 + RULES3 + PARSE_HELPERS]
    for f in RULES4 + RULES3:
        fn = "uri%s%s" % (f, ch)
        ob(id="%s.%s.D" % (f, ch), props=["C03", "C01", "C02", "C19", "C20"], route="D", harness="d_parse.c", entry="h_" + f, char=ch,
           group="parser rule functions: reads confined to the input, result/error position in range, no residue on failure, input never written (interface contract, induction on recursion)",
           enforce=[fn], rec=True, replace=[g for g in allf if g != fn],
           restrict_fp=(["uriParseIpLit2%s.function_pointer_call.1/pm_malloc_contract" % ch] if f == "ParseIpLit2" else []),
           level="P", bounds="none (input length symbolic up to 10^6 characters: object size, not an unwinding bound)",
           functions=[fn], stubs=["every callee by its contract (same text, enforced by the callee's own obligation)"],
           require_classes={"contract.post": 2}, covers=False, object_bits=12, timeout_s=900, mem_gb=8)

for ch in ("A", "W"):
    ob(id="ParseIpFourAddress.%s.H" % ch, props=["C01", "C02", "C03", "C19"], route="H", harness="c02_ip4.c", char=ch,
       group="uriParseIpFourAddress == RFC 3986 IPv4address recogniser, octet values, reads confined to the range (loop-free, all lengths)",
       level="P", bounds=("none (loop-free; text length symbolic up to 10^6)" if ch == "A" else "none on the parser (loop-free); text blocks of 0..18 wide characters, exact size each (a wide block of symbolic size does not fit into memory; the function looks at 16 characters at most)"),
       defines=({} if ch == "A" else {"V_NMAX": 18, "V_CONSTBLOCK": 1}),
       functions=["uriParseIpFourAddress" + ch, "uriParseDecOctet" + ch, "uriParseDecOctetOne" + ch, "uriParseDecOctetTwo" + ch,
                  "uriParseDecOctetThree" + ch, "uriParseDecOctetFour" + ch, "uriPushToStack", "uriStackToOctet"],
       inlined=["all of the above (verified in place)"], stubs=[], timeout_s=600, mem_gb=16)

for ch in ("A", "W"):
    for (entry, nm, props, fns) in (
            ("h_free", "FreeUriMembersMm", ["C03", "C13", "C12", "C19"], ["uriFreeUriMembersMm"]),
            ("h_push", "PushPathSegment", ["C02", "C03", "C07", "C14", "C19"], ["uriPushPathSegment"]),
            ("h_fixtrail", "FixEmptyTrailSegment", ["C02", "C07", "C13", "C19"], ["uriFixEmptyTrailSegment"]),
            ("h_stop", "StopSyntaxMalloc", ["C01", "C03", "C13", "C14", "C19"], ["uriStopSyntax", "uriStopMalloc", "uriFreeUriMembersMm"])):
        ob(id="%s.%s.H" % (nm, ch), props=props, route="H", harness="c03_helpers.c", entry=entry, char=ch,
           group="parser helpers owning the segment list and the error exits (the helper contracts assumed by the rule-function obligations, on the real code)",
           defines=by_tier({"VM": 2, "VL": 2, "VT": 4}, {"VM": 4, "VL": 2, "VT": 4}),
           unwindset=by_tier({"uriFreeUriMembersMm%s.*" % ch: 4}, {"uriFreeUriMembersMm%s.*" % ch: 6}),
           level="B", bounds=by_tier("<=2 segments", "<=4 segments"), functions=[f + ch for f in fns], stubs=["memory manager (ledger stub)"],
           timeout_s=600, mem_gb=8)

for ch in ("A", "W"):
    allf = ["uri%s%s" % (f, ch) for f in RULES4 + RULES3 + PARSE_HELPERS]
    ob(id="ParseUriExMm.%s.D" % ch, props=["C01", "C03", "C19", "C20"], route="D", harness="d_parse.c", entry="h_ParseUriExMm", char=ch,
       group="parser entry points: NULL arguments, whole range consumed or syntax error at the stop position inside the range, clamp, nothing left on failure",
       enforce=["uriParseUriExMm" + ch], replace=allf + ["uriResetUri" + ch], level="P", bounds="none",
       functions=["uriParseUriExMm" + ch, "uriResetParserStateExceptUri" + ch], stubs=["uriParseUriReference, uriStopSyntax, uriResetUri by contract"],
       inlined=["uriMemoryManagerIsComplete", "uriResetParserStateExceptUri" + ch],
       require_classes={"contract.post": 4}, covers=False, object_bits=12, timeout_s=900, mem_gb=8)
    ob(id="ParseSingleUriExMm.%s.D" % ch, props=["C01", "C03", "C13", "C19", "C20"], route="D", harness="d_parse.c", entry="h_ParseSingleUriExMm", char=ch,
       group="parser entry points: NULL arguments, whole range consumed or syntax error at the stop position inside the range, clamp, nothing left on failure",
       enforce=["uriParseSingleUriExMm" + ch], replace=["uriParseUriExMm" + ch, "uriFreeUriMembersMm" + ch], level="P", bounds="none",
       functions=["uriParseSingleUriExMm" + ch], stubs=["uriParseUriExMm, uriFreeUriMembersMm by contract"], inlined=["uriMemoryManagerIsComplete"],
       require_classes={"contract.post": 4}, covers=False, object_bits=12, timeout_s=900, mem_gb=8)

for ch in ("A", "W"):
    ob(id="OnExitHost.%s.H" % ch, props=["C02", "C01", "C13", "C14", "C19"], route="H", harness="c03_helpers.c", entry="h_onexit", char=ch,
       group="uriOnExitOwnHost2 / OwnHostUserInfo / OwnPortUserInfo: host range, mark moves, IPv4 classification against the RFC recogniser, octets, probe block",
       defines={"VM": 1, "VL": 1, "VT": 2, "V_TXT": 16}, level="B",
       bounds="host texts up to 16 characters (the IPv4 recogniser and uriParseIpFourAddress look at 16 characters at most; host texts of up to 16 characters are explored, longer ones are rejected by both after the same 16)",
       functions=["uriOnExitOwnHost2" + ch, "uriOnExitOwnHostUserInfo" + ch, "uriOnExitOwnPortUserInfo" + ch],
       inlined=["uriParseIpFourAddress" + ch], stubs=["memory manager (ledger stub)"], timeout_s=900, mem_gb=10)

    ob(id="OnExitSegment.%s.H" % ch, props=["C02", "C14", "C19"], route="H", harness="c03_helpers.c", entry="h_onexit_seg", char=ch,
       group="uriOnExitSegmentNzNcOrScheme2 / uriOnExitPartHelperTwo: provisional scheme start withdrawn and pushed as the first segment; absolute-path flag; no other mark changes",
       defines={"VM": 1, "VL": 4, "VT": 4}, level="B", bounds="provisional scheme text of up to 4 characters; the allocation requests may fail",
       functions=["uriOnExitSegmentNzNcOrScheme2" + ch, "uriOnExitPartHelperTwo" + ch], inlined=["uriPushPathSegment" + ch],
       stubs=["memory manager (ledger stub)"], timeout_s=600, mem_gb=8)

for ch in ("A",):
    for (tier, k) in ((Q, 14), (T, 18)):
        ob(id="ParseIPv6address2.v4tail.K%d.%s.H" % (k, ch), props=["C01", "C02", "C03", "C19"], route="H", harness="c02_ip6.c", char=ch, tier=tier,
           quick_only=(tier == Q),
           group="uriParseIPv6address2 == RFC 3986 IPv6address recogniser on the slice '::' + digits/dots/']' (embedded IPv4 tail) - bounded stand-in",
           defines={"V_K": k, "SPEC_IP6_MAX": k, "V_IP6_MODE": 1},
           unwindset={"uriParseIPv6address2%s.0" % ch: k + 1, "uriParseIPv6address2%s.1" % ch: 6, "uriParseIPv6address2%s.2" % ch: 3,
                      "uriFreeUriMembersMm%s.*" % ch: 2},
           level="B", bounds="literals '::' + at most %d characters from [0-9.]] (including the closing bracket)" % (k - 2),
           functions=["uriParseIPv6address2" + ch], inlined=["uriStopSyntax" + ch, "uriFreeUriMembersMm" + ch, "uriWriteQuadToDoubleByte", "uriGetOctetValue"],
           stubs=["memory manager (ledger stub)", "memcpy/memset: CBMC models"], timeout_s=3000, mem_gb=16)
for ch in ("A", "W"):
    ob(id="ParseIPv6address2.layouts.%s.H" % ch, props=["C01", "C02", "C03", "C19"], route="H", harness="c02_ip6.c", entry="h_layouts", char=ch,
       group="uriParseIPv6address2 == RFC 3986 IPv6address recogniser on ENUMERATED long literals: p groups, '::', q groups for every p + q <= 8 and the eight-group form, one-digit and four-digit groups with distinct digits (90 constant texts; accept/reject, the 16 address bytes, reads confined) - bounded stand-in by enumeration, not a proof",
       defines={"V_K": 48, "SPEC_IP6_MAX": 48, "V_IP6_MODE": 3},
       unwindset={"uriParseIPv6address2%s.0" % ch: 49, "uriParseIPv6address2%s.1" % ch: 49, "uriParseIPv6address2%s.2" % ch: 49,
                  "uriFreeUriMembersMm%s.*" % ch: 2},
       level="B", bounds="90 enumerated literals of up to 40 characters (a symbolic slice of 17-character literals over six symbols ran out of memory at 24 GB)",
       functions=["uriParseIPv6address2" + ch], inlined=["uriStopSyntax" + ch, "uriFreeUriMembersMm" + ch, "uriWriteQuadToDoubleByte", "uriGetOctetValue"],
       stubs=["memory manager (ledger stub)", "memcpy/memset: CBMC models"], covers=False, object_bits=12, timeout_s=900, mem_gb=10)
for ch in ("A",):        # the W instance exceeds the memory budget; the scanner is compiled from the same text
    for (tier, k) in ((Q, 8), (T, 12)):
        ob(id="ParseIPv6address2.K%d.%s.H" % (k, ch), props=["C01", "C02", "C03", "C19"], route="H", harness="c02_ip6.c", char=ch, tier=tier,
           quick_only=(tier == Q),
           group="uriParseIPv6address2 == RFC 3986 IPv6address recogniser (accept/reject, address bytes, error position in the literal, reads confined) - bounded stand-in",
           defines={"V_K": k, "SPEC_IP6_MAX": k},
           unwindset={"uriParseIPv6address2%s.0" % ch: k + 1, "uriParseIPv6address2%s.1" % ch: k + 1, "uriParseIPv6address2%s.2" % ch: 3,
                      "uriFreeUriMembersMm%s.*" % ch: 2},
           level="B", bounds="literals (including the closing bracket) of at most %d characters" % k,
           functions=["uriParseIPv6address2" + ch], inlined=["uriStopSyntax" + ch, "uriFreeUriMembersMm" + ch, "uriWriteQuadToDoubleByte", "uriGetOctetValue"],
           stubs=["memory manager (ledger stub)", "memcpy/memset: CBMC models"], timeout_s=3000, mem_gb=(10 if k <= 8 else 24))


# ----------------------------------------------------------------------------------------------------------------
# C17  query lists (bounded part)
for ch in ("A", "W"):
    ob(id="DissectQuery.%s.H" % ch, props=["C17", "C13", "C14", "C19", "C20"], route="H", harness="c17_query.c", entry="h_dissect", char=ch,
       group="uriDissectQueryMallocExMm: split positions, order, options, count, fault injection, release (uriAppendQueryItem replaced by its contract stub)",
       defines=by_tier({"VN": 4}, {"VN": 6}), replace_bodies=[("uriAppendQueryItem" + ch, "append_query_item.c")],
       unwindset=by_tier({"uriDissectQueryMallocExMm%s.*" % ch: 6, "uriFreeQueryListMm%s.*" % ch: 7},
                         {"uriDissectQueryMallocExMm%s.*" % ch: 8, "uriFreeQueryListMm%s.*" % ch: 9}),
       level="B", bounds=by_tier("query text of at most 4 characters, every allocation request may fail", "query text of at most 6 characters"),
       functions=["uriDissectQueryMallocExMm" + ch, "uriFreeQueryListMm" + ch], inlined=["uriFreeQueryListMm" + ch],
       stubs=["uriAppendQueryItem (contract stub stubs/append_query_item.c, discharged by AppendQueryItem.*.H)", "memory manager (ledger stub)"],
       timeout_s=by_tier(900, 3600), mem_gb=10)
    if ch == "A": ob(id="AppendQueryItem.%s.H" % ch, props=["C17", "C13", "C14", "C19"], route="H", harness="c17_query.c", entry="h_append", char=ch,
       group="uriAppendQueryItem (real, with the real uriUnescapeInPlaceEx): exact-size unescaped copies, NULL vs empty value, roll-back on refusal",
       defines=by_tier({"VN": 3, "VSTUB_MEMCPY": 1}, {"VN": 5, "VSTUB_MEMCPY": 1}),
       unwindset=by_tier({"uriUnescapeInPlaceEx%s.*" % ch: 5, "memcpy.*": 5, "uriFreeQueryListMm%s.*" % ch: 3}, {"uriUnescapeInPlaceEx%s.*" % ch: 7, "memcpy.*": 7, "uriFreeQueryListMm%s.*" % ch: 3}),
       level="B", bounds=by_tier("key and value ranges of at most 3 characters (no '%')", "at most 5 characters"),
       functions=["uriAppendQueryItem" + ch], inlined=["uriUnescapeInPlaceEx" + ch, "uriFreeQueryListMm" + ch], stubs=["memory manager (ledger stub)", "memcpy (element loop)"],
       timeout_s=by_tier(900, 3600), mem_gb=(10 if ch == "A" else 24))
    ob(id="ComposeQuery.%s.H" % ch, props=["C17", "C19"], route="H", harness="c17_query.c", entry="h_roundtrip", char=ch,
       group="uriComposeQueryEx / CharsRequiredEx: chars-required sufficient, written == length+1, nothing at or beyond maxChars, only legal query characters",
       defines=by_tier({"VI": 2, "VS": 1, "VSTUB_MEMCPY": 1, "V_COMPOSE_ONLY": 1}, {"VI": 2, "VS": 2, "VSTUB_MEMCPY": 1, "V_COMPOSE_ONLY": 1}),
       unwindset=by_tier({"uriComposeQueryEngine%s.*" % ch: 3, "uriEscapeEx%s.*" % ch: 3, "uriDissectQueryMallocExMm%s.*" % ch: 16, "uriFreeQueryListMm%s.*" % ch: 4,
                          "uriUnescapeInPlaceEx%s.*" % ch: 8, "memcpy.*": 8, "strlen.*": 3, "wcslen.*": 3, "vmm_take.*": 34},
                         {"uriComposeQueryEngine%s.*" % ch: 3, "uriEscapeEx%s.*" % ch: 4, "uriDissectQueryMallocExMm%s.*" % ch: 30, "uriFreeQueryListMm%s.*" % ch: 4,
                          "uriUnescapeInPlaceEx%s.*" % ch: 14, "memcpy.*": 14, "strlen.*": 4, "wcslen.*": 4, "vmm_take.*": 58}),
       level="B", bounds=by_tier("2 items, keys/values of at most 1 character (code points 1..255, no line breaks when break normalization is on)",
                                 "2 items, keys/values of at most 2 characters"),
       functions=["uriComposeQueryEx" + ch, "uriComposeQueryCharsRequiredEx" + ch, "uriComposeQueryEngine" + ch],
       inlined=["uriEscapeEx" + ch], stubs=[],
       timeout_s=by_tier(1500, 7200), mem_gb=by_tier(12, 24))

    ob(id="ComposeQueryMalloc.%s.H" % ch, props=["C17", "C19", "C13", "C14"], route="H", harness="c17_query.c", entry="h_composemalloc", char=ch,
       group="uriComposeQueryMallocExMm: block sized in characters, holds the text of uriComposeQueryEx, one block outstanding, refusal => URI_ERROR_MALLOC",
       defines=by_tier({"VI": 1, "VS": 1, "VSTUB_MEMCPY": 1}, {"VI": 2, "VS": 1, "VSTUB_MEMCPY": 1}),
       unwindset=by_tier({"uriComposeQueryEngine%s.*" % ch: 2, "uriEscapeEx%s.*" % ch: 3, "memcpy.*": 8, "strlen.*": 3, "wcslen.*": 3},
                         {"uriComposeQueryEngine%s.*" % ch: 3, "uriEscapeEx%s.*" % ch: 3, "memcpy.*": 8, "strlen.*": 3, "wcslen.*": 3}),
       level="B", bounds=by_tier("1 item, key/value of at most 1 character (code points 1..255); the one allocation request may fail",
                                 "2 items, keys/values of at most 1 character; the one allocation request may fail"),
       functions=["uriComposeQueryMallocExMm" + ch], inlined=["uriComposeQueryEx" + ch, "uriComposeQueryCharsRequiredEx" + ch, "uriComposeQueryEngine" + ch, "uriEscapeEx" + ch],
       stubs=["memory manager (one-block canary arena in the harness)"], timeout_s=by_tier(900, 3600), mem_gb=by_tier(10, 20))

# ----------------------------------------------------------------------------------------------------------------
# C18  filename <-> URI string
NOPTROVF = ["--bounds-check", "--pointer-check", "--signed-overflow-check", "--div-by-zero-check", "--undefined-shift-check",
            "--no-malloc-may-fail", "--sat-solver", "cadical"]   # without --pointer-overflow-check: ISO C note `input - 1` (DESIGN 6)
for ch in ("A", "W"):
    for (entry, nm) in (("h_unix", "Unix"), ("h_windows", "Windows")):
        ob(id="FilenameToUri%s.%s.H" % (nm, ch), props=["C18", "C19", "C20"], route="H", harness="c18_file.c", entry=entry, char=ch,
           group="filename -> URI string: documented buffer size (canaries behind it), file:///x / file:///C:/x / file://server/share / relative shape, path characters only",
           defines=by_tier({"VF": 3, "VSTUB_MEMCPY": 1, "V_TO_URI_ONLY": 1}, {"VF": 4, "VSTUB_MEMCPY": 1, "V_TO_URI_ONLY": 1}), checks=NOPTROVF,
           unwindset=by_tier({"uriFilenameToUriString%s.*" % ch: 5, "uriEscapeEx%s.*" % ch: 5, "memcpy.*": 10, "strlen.*": 10, "wcslen.*": 10},
                             {"uriFilenameToUriString%s.*" % ch: 6, "uriEscapeEx%s.*" % ch: 6, "memcpy.*": 10, "strlen.*": 10, "wcslen.*": 10}),
           level="B", bounds=by_tier("filenames of at most 3 characters (code points 1..255)", "filenames of at most 4 characters"),
           functions=["uriFilenameToUriString" + ch, "uri%sFilenameToUriString%s" % (nm, ch)],
           inlined=["uriEscapeEx" + ch], stubs=["memcpy (element loop)"], timeout_s=by_tier(900, 3600), mem_gb=10)
    for (entry, nm) in (("h_unix", "Unix"), ("h_windows", "Windows")):
        ob(id="FilenameRoundTrip%s.%s.H" % (nm, ch), props=["C18", "C19"], route="H", harness="c18_file.c", entry=entry, char=ch,
           group="filename -> URI string -> filename: documented buffer sizes (canaries), round trip",
           defines=by_tier({"VF": 3, "VSTUB_MEMCPY": 1}, {"VF": 4, "VSTUB_MEMCPY": 1}), checks=NOPTROVF,
           unwindset=by_tier({"uriFilenameToUriString%s.*" % ch: 5, "uriUriStringToFilename%s.*" % ch: 20, "uriEscapeEx%s.*" % ch: 5, "uriUnescapeInPlaceEx%s.*" % ch: 20,
                              "memcpy.*": 20, "strlen.*": 20, "wcslen.*": 20, "strncmp.*": 9, "wcsncmp.*": 9},
                             {"uriFilenameToUriString%s.*" % ch: 6, "uriUriStringToFilename%s.*" % ch: 24, "uriEscapeEx%s.*" % ch: 6, "uriUnescapeInPlaceEx%s.*" % ch: 24,
                              "memcpy.*": 24, "strlen.*": 24, "wcslen.*": 24, "strncmp.*": 9, "wcsncmp.*": 9}),
           level="B", bounds=by_tier("filenames of at most 3 characters (code points 1..255)", "filenames of at most 4 characters"),
           functions=["uriFilenameToUriString" + ch, "uriUriStringToFilename" + ch, "uri%sFilenameToUriString%s" % (nm, ch), "uriUriStringTo%sFilename%s" % (nm, ch)],
           inlined=["uriEscapeEx" + ch, "uriUnescapeInPlaceEx" + ch], stubs=["memcpy (element loop)"], timeout_s=by_tier(1200, 3600), mem_gb=12)
    ob(id="FilenameShortForms.%s.H" % ch, props=["C18", "C19"], route="H", harness="c18_file.c", entry="h_shortforms", char=ch,
       group="short forms file:/x and file:c:/x accepted on input", defines={"VF": 3, "VSTUB_MEMCPY": 1}, checks=NOPTROVF,
       unwindset={"uriUriStringToFilename%s.*" % ch: 8, "uriUnescapeInPlaceEx%s.*" % ch: 8, "memcpy.*": 8, "strlen.*": 12, "wcslen.*": 12, "strncmp.*": 9, "wcsncmp.*": 9},
       level="B", bounds="two fixed input shapes with one symbolic character", functions=["uriUriStringToFilename" + ch], timeout_s=600, mem_gb=6)

# ----------------------------------------------------------------------------------------------------------------
# C12 (+C07,C13,C14)  make-owner
for ch in ("A", "W"):
    ob(id="MakeOwner.%s.H" % ch, props=["C12", "C07", "C13", "C14", "C19", "C20"], route="H", harness="c12_makeowner.c", char=ch,
       group="uriMakeOwnerMm: private copies of every non-empty range, content preserved, independence of the source, source never written, ledger, fault injection",
       defines=by_tier({"VM": 2, "VL": 2, "VT": 4, "VSTUB_MEMCPY": 1}, {"VM": 3, "VL": 3, "VT": 5, "VSTUB_MEMCPY": 1}),
       unwindset=by_tier({"uriMakeOwnerEngine%s.*" % ch: 4, "uriPreventLeakage%s.*" % ch: 4, "uriFreeUriMembersMm%s.*" % ch: 4, "uriMakeOwnerMm%s.*" % ch: 2, "memcpy.*": 3},
                         {"uriMakeOwnerEngine%s.*" % ch: 5, "uriPreventLeakage%s.*" % ch: 5, "uriFreeUriMembersMm%s.*" % ch: 5, "uriMakeOwnerMm%s.*" % ch: 2, "memcpy.*": 4}),
       level="B", bounds=by_tier("<=2 segments, <=2 characters per component, all host kinds, every allocation request may fail",
                                 "<=3 segments, <=3 characters per component"),
       functions=["uriMakeOwnerMm" + ch, "uriMakeOwnerEngine" + ch, "uriMakeRangeOwner" + ch, "uriPreventLeakage" + ch, "uriFreeUriMembersMm" + ch],
       inlined=["all of the above"], stubs=["memory manager (ledger stub)", "memcpy (element loop)"], timeout_s=by_tier(1500, 7200), mem_gb=by_tier(12, 24))

# ----------------------------------------------------------------------------------------------------------------
# supporting static facts (route L: external checker on the goto binaries of the staged library)
ob(id="static.no-direct-allocator-calls", props=["C13"], route="L", harness="", cmd=["python3", "{VERIF}/tools/static_scan.py", "allocs", "{SCRATCH}/clean"],
   group="[S] call graph of the staged library: malloc/calloc/realloc/reallocarray/free are called only by the five uriDefault* functions",
   level="P", bounds="none (syntactic fact about the goto binary)", functions=[], backend="goto-instrument --call-graph", rc1_is_violation=True, timeout_s=300)
ob(id="static.no-writable-statics", props=["C20"], route="L", harness="", cmd=["python3", "{VERIF}/tools/static_scan.py", "statics", "{SCRATCH}/clean"],
   group="[S] static-lifetime objects of the staged library are exactly the seven constant ones and no instruction assigns them by name",
   level="P", bounds="none (syntactic fact about the goto binary)", functions=[], backend="goto-instrument --show-symbol-table / --show-goto-functions",
   rc1_is_violation=True, timeout_s=300)

# C16 bounded content obligations (fixed-size arrays)
for ch in ("A", "W"):
    for (entry, nm, fns) in (("h_escape", "EscapeContent", ["uriEscapeEx"]), ("h_unescape", "UnescapeContent", ["uriUnescapeInPlaceEx"]),
                             ("h_roundtrip", "EscapeRoundTrip", ["uriEscapeEx", "uriUnescapeInPlaceEx"])):
        ob(id="%s.%s.H" % (nm, ch), props=["C16", "C19"], route="H", harness="c16_content.c", entry=entry, char=ch,
           group="percent-escaping content on short strings: escape == spec_escape, unescape == spec_unescape, unescape(escape(s)) == s",
           defines=by_tier({"VLC": 3}, {"VLC": 5}),
           unwindset=by_tier({"uriEscapeEx%s.*" % ch: 5, "uriUnescapeInPlaceEx%s.*" % ch: 20}, {"uriEscapeEx%s.*" % ch: 7, "uriUnescapeInPlaceEx%s.*" % ch: 32}),
           level="B", bounds=by_tier("strings of at most 3 characters over code points 1..255, all flag combinations", "strings of at most 5 characters"),
           functions=[f + ch for f in fns], inlined=["uriHexToLetter" + ch, "uriHexdigToInt" + ch], stubs=[], timeout_s=by_tier(900, 3600), mem_gb=10)

    ob(id="UnescapeTokens.%s.H" % ch, props=["C16", "C19"], route="H", harness="c16_content.c", entry="h_unescape", char=ch,
       group="uriUnescapeInPlaceEx == spec_unescape on token-structured texts: up to 3 tokens, each a character or a well-formed %XX triplet (up to 9 characters), all flag combinations",
       defines=by_tier({"VLC": 9, "V_TOKENS": 3}, {"VLC": 12, "V_TOKENS": 4}),
       unwindset=by_tier({"uriUnescapeInPlaceEx%s.*" % ch: 12}, {"uriUnescapeInPlaceEx%s.*" % ch: 15}),
       level="B", bounds=by_tier("texts of at most 3 tokens (character or %XX), i.e. at most 9 characters", "texts of at most 4 tokens, at most 12 characters"),
       functions=["uriUnescapeInPlaceEx" + ch], inlined=["uriHexdigToInt" + ch], stubs=[], timeout_s=by_tier(900, 3600), mem_gb=10)

# ----------------------------------------------------------------------------------------------------------------
# C01/C02  dispatch obligations: code == LL(1) table extracted from the production comments (route D), and the
# spec-level lemma table == RFC 3986 (route L)
DISPATCH_RULES = [f for f in RULES4 + RULES3 if f not in ("ParseIPv6address2",)]
for ch in ("A", "W"):
    allf = ["uri%s%s" % (f, ch) for f in RULES4 + RULES3 + PARSE_HELPERS]
    for f in DISPATCH_RULES:
        fn = "uri%s%s" % (f, ch)
        ob(id="Dispatch.%s.%s.D" % (f, ch), props=["C01", "C02", "C19"], route="D", harness="d_dispatch.c", entry="h_dispatch", char=ch,
           group="parser rule functions: for every lookahead character the calls made, their position arguments, the result and the syntax-error position are those of the LL(1) table extracted from the production comments (dispatch contract, generated)",
           gen_cmd=["python3", "{VERIF}/spec/gen_dispatch.py", "{VDIR}", f, "{WD}"],
           rename_selfcalls=[("UriParse.c", [f])],
           enforce=[fn], replace=[g for g in allf if g != fn] + ["uri%s__rec%s" % (f, ch)],
           restrict_fp=(["uriParseIpLit2%s.function_pointer_call.1/pm_malloc_contract" % ch] if f == "ParseIpLit2" else []),
           level="P", bounds="none (symbolic lookahead character, input length symbolic up to 10^6)",
           functions=[fn], stubs=["every callee by its logging interface contract; self-calls by the twin carrying the same contract"],
           require_classes={"contract.post": 3}, covers=False, object_bits=12, timeout_s=900, mem_gb=8)
# C02 mark actions: the dispatch obligation again, with the frozen may-change table and the recorded-boundary clauses
MARK_POSTS = ["ParseUriTail", "ParseUriTailTwo", "ParseAuthorityTwo", "ParseSegmentNzNcOrScheme2", "ParseUriReference", "ParseIpFuture", "ParseAuthority",
              "ParseOwnHost", "ParseOwnHostUserInfoNz", "ParseOwnPortUserInfo", "ParseOwnUserInfo", "ParseMustBeSegmentNzNc"]
for ch in ("A", "W"):
    allf = ["uri%s%s" % (f, ch) for f in RULES4 + RULES3 + PARSE_HELPERS]
    for f in DISPATCH_RULES:
        fn = "uri%s%s" % (f, ch)
        ob(id="Marks.%s.%s.D" % (f, ch), props=["C02", "C19"], route="D", harness="d_dispatch.c", entry="h_dispatch", char=ch,
           group="parser rule functions: on success every recorded mark outside the function's frozen may-change set has its entry value; the functions that record a component boundary record exactly `first`, `first + 1` or the position a callee returned (query, fragment, port, scheme end, provisional scheme start, IPvFuture host, host begin after '[', user-info end)",
           gen_cmd=["python3", "{VERIF}/spec/gen_dispatch.py", "{VDIR}", f, "{WD}"], defines={"P_MARKS": 1},
           rename_selfcalls=[("UriParse.c", [f])],
           enforce=[fn], replace=[g for g in allf if g != fn] + ["uri%s__rec%s" % (f, ch)],
           restrict_fp=(["uriParseIpLit2%s.function_pointer_call.1/pm_malloc_contract" % ch] if f == "ParseIpLit2" else []),
           level="P", bounds="none (symbolic lookahead character, input length symbolic up to 10^6)",
           functions=[fn], stubs=["every callee by its interface contract incl. its may-change set; helpers uriOnExit* and uriParseIPv6address2 by contract (their may-change sets are asserted on the real code in OnExitHost.*.H / ParseIPv6address2.*.H)"],
           require_classes={"contract.post": 4}, covers=False, object_bits=12, timeout_s=900, mem_gb=8)
ob(id="lemma.grammar-equals-rfc", props=["C01", "C02"], route="L", harness="", cmd=["python3", "{VERIF}/spec/grammar_tool.py", "check", "{SCRATCH}/clean"],
   group="[L] L1: the documented LL(1) grammar (production comments of src/UriParse.c) denotes exactly RFC 3986 URI-reference (minimal DFAs compared; 182+1 states), all recursion is tail recursion, the table is LL(1)",
   level="P", bounds="none (finite automata constructions, complete)", functions=[], backend="spec/grammar_tool.py", rc1_is_violation=True, timeout_s=300)

# ----------------------------------------------------------------------------------------------------------------
# C17 size arithmetic of query composition with symbolic string lengths (uriEscapeEx / strlen by contract)
for ch in ("A", "W"):
    ob(id="ComposeSizes.%s.H" % ch, props=["C17", "C19"], route="H", harness="c17_sizes.c", char=ch,
       group="uriComposeQueryEngine via uriComposeQueryCharsRequiredEx / uriComposeQueryEx with symbolic string lengths: chars required == worst-case sum, sufficient, written == length + 1, no write beyond maxChars, sizes beyond INT_MAX refused, no int overflow",
       replace_bodies=[(["uriEscapeEx" + ch] + (["wcslen"] if ch == "W" else []), "compose_callees.c")],
       defines=(by_tier({"VI": 3, "VD": 24}, {"VI": 4, "VD": 24}) if ch == "A" else by_tier({"VI": 3, "VD": 8}, {"VI": 3, "VD": 8})), checks=NOPTROVF,
       unwindset=by_tier({"uriComposeQueryEngine%s.*" % ch: 4, "cs_find.*": 9}, {"uriComposeQueryEngine%s.*" % ch: 5, "cs_find.*": 9}),
       level="B", bounds=by_tier("<=3 items; string lengths symbolic up to 2^40 (measuring: no further bound; writing: destination blocks of 1..24 characters (W: 1..8), exact size)",
                                 "<=4 items (W: 3); string lengths symbolic up to 2^40; writing: destination blocks of 1..24 characters (W: 1..8)"),
       functions=["uriComposeQueryEngine" + ch, "uriComposeQueryCharsRequiredEx" + ch, "uriComposeQueryEx" + ch],
       inlined=["uriComposeQueryEngine" + ch], stubs=["uriEscapeEx (contract stub stubs/compose_callees.c; its clauses are those of EscapeEx.A.N)", "strlen/wcslen (table stub: assumed libc contract)"],
       timeout_s=by_tier(600, 3600), mem_gb=10)

# ----------------------------------------------------------------------------------------------------------------
# C13: incomplete manager rejected before anything is allocated, all ten manager-taking functions (loop-free => complete)
MM_FUNCS = ["AddBaseUriExMm", "RemoveBaseUriMm", "NormalizeSyntaxExMm", "MakeOwnerMm", "FreeUriMembersMm", "ParseSingleUriExMm", "ParseUriExMm",
            "ComposeQueryMallocExMm", "DissectQueryMallocExMm", "FreeQueryListMm"]
for ch in ("A", "W"):
    ob(id="ManagerEntry.%s.H" % ch, props=["C13", "C14", "C19"], route="H", harness="c22_manager.c", char=ch,
       group="every manager-taking function x five incomplete managers: dedicated error code, no request to / release through the manager, output objects untouched (arbitrary argument contents)",
       level="P", bounds="none (the rejected paths are loop-free; argument objects hold arbitrary bytes)",
       functions=["uri%s%s" % (f, ch) for f in MM_FUNCS] + ["uriMemoryManagerIsComplete"], inlined=["uriMemoryManagerIsComplete"],
       stubs=["memory manager (ledger stub with one member removed)"], covers=False, object_bits=12, timeout_s=600, mem_gb=6)

for ch in ("A", "W"):
    ob(id="NullArgs.%s.H" % ch, props=["C13", "C14", "C06", "C10", "C12", "C17", "C19"], route="H", harness="c23_nullargs.c", char=ch,
       group="NULL-argument exits of the manager-taking operations with arbitrary (stale) output objects: URI_ERROR_NULL, nothing requested, no stale pointer released - neither by the call nor by the caller's cleanup of the output URI; read-only arguments untouched",
       unwindset={"uriFreeUriMembersMm%s.*" % ch: 2},
       level="P", bounds="none (the rejected paths are loop-free; every non-NULL argument object holds arbitrary bytes)",
       functions=["uri%s%s" % (f, ch) for f in ["AddBaseUriExMm", "AddBaseUriImpl", "RemoveBaseUriMm", "RemoveBaseUriImpl", "NormalizeSyntaxExMm", "MakeOwnerMm", "FreeUriMembersMm",
                                                "DissectQueryMallocExMm", "ComposeQueryMallocExMm", "ComposeQueryCharsRequiredEx", "ResetUri"]],
       inlined=["all of the above"], stubs=["memory manager (ledger stub)"], covers=False, object_bits=12, timeout_s=600, mem_gb=6)

for ch in ("A", "W"):
    ob(id="DefaultManager.%s.H" % ch, props=["C13", "C19"], route="H", harness="c24_defaultmm.c", char=ch,
       group="memory == NULL => default manager => C library: forwarders uriDefaultMalloc/Calloc/Free (exact size, zeroed, exact pointer), and uriMakeOwnerMm + uriFreeUriMembersMm end to end on CBMC's allocator model with the memory-leak check on",
       extra_flags=["--memory-leak-check"], defines={"VSTUB_MEMCPY": 1},
       unwindset={"uriMakeOwnerEngine%s.*" % ch: 2, "uriPreventLeakage%s.*" % ch: 2, "uriFreeUriMembersMm%s.*" % ch: 2, "memcpy.*": 6},
       level="B", bounds="blocks of 1..64 bytes / 1..8 elements; a URI with a one-character scheme and a query of 1..4 characters, no path",
       functions=["uriDefaultMalloc", "uriDefaultCalloc", "uriDefaultFree", "uriMakeOwnerMm" + ch, "uriFreeUriMembersMm" + ch],
       inlined=["uriMakeOwnerEngine" + ch, "uriMakeRangeOwner" + ch], stubs=["malloc/calloc/free: CBMC's allocator model (malloc may fail)"], covers=False, object_bits=12, timeout_s=600, mem_gb=6)

# ----------------------------------------------------------------------------------------------------------------
# thin public wrappers: which callee, once, with which arguments and defaults (loop-free => complete)
WRAPPER_CALLEES = ["AddBaseUriExMm", "RemoveBaseUriMm", "NormalizeSyntaxExMm", "NormalizeSyntaxMaskRequiredEx", "MakeOwnerMm", "FreeUriMembersMm",
                   "ParseUriExMm", "ParseSingleUriExMm", "EscapeEx", "UnescapeInPlaceEx", "ComposeQueryEngine", "ComposeQueryMallocExMm",
                   "DissectQueryMallocExMm", "FreeQueryListMm"]
WRAPPERS = ["AddBaseUri", "AddBaseUriEx", "RemoveBaseUri", "NormalizeSyntax", "NormalizeSyntaxEx", "NormalizeSyntaxMaskRequired", "MakeOwner",
            "ParseUri", "ParseUriEx", "ParseSingleUriEx", "ParseSingleUri", "FreeUriMembers", "Escape", "UnescapeInPlace",
            "ComposeQueryCharsRequired", "ComposeQueryCharsRequiredEx", "ComposeQuery", "ComposeQueryEx", "ComposeQueryMalloc",
            "ComposeQueryMallocEx", "DissectQueryMalloc", "DissectQueryMallocEx", "FreeQueryList"]
for ch in ("A", "W"):
    ob(id="Wrappers.%s.H" % ch, props=["C01", "C06", "C08", "C10", "C12", "C13", "C16", "C17", "C19", "C20"], route="H", harness="c21_wrappers.c", char=ch,
       group="thin public wrappers (23 functions): exactly one call of the documented callee with the wrapper's own arguments plus the documented defaults (strict resolution, full mask, TRUE/TRUE resp. plus-to-space/breaks-untouched, default memory manager, NUL-terminated when afterLast == NULL), result handed back, nothing else written",
       replace_bodies=[(["uri%s%s" % (f, ch) for f in WRAPPER_CALLEES] + (["wcslen"] if ch == "W" else []), "wrapper_callees.c")],
       level="P", bounds="none (loop-free; every argument symbolic, every pointer argument NULL or valid independently)",
       functions=["uri%s%s" % (f, ch) for f in WRAPPERS], inlined=[],
       stubs=["the 14 callees by logging contract stubs (stubs/wrapper_callees.c); strlen/wcslen by logging stub (assumed libc contract)"],
       timeout_s=600, mem_gb=6)

# ----------------------------------------------------------------------------------------------------------------
# Quick tier = the per-change subset (regular expressions on obligation ids, per property); the thorough tier runs every
# obligation that lists the property.  Shared whole-operation obligations are expensive, so each property's quick check
# keeps the obligations that decide *its* clauses most directly.
import re as _re
QUICK = {
    "C01": [r"^Wrappers\.A", r"^lemma\.grammar", r"^Dispatch\..*\.A\.D$", r"^Parse(Single)?UriExMm\.A", r"^ParseIpFourAddress\.A", r"^ParseIPv6address2\.", r"^OnExitHost\.A"],
    "C02": [r"^ParseIPv6address2\.layouts\.A", r"^lemma\.grammar", r"^OnExitHost\.A", r"^PushPathSegment\.A", r"^FixEmptyTrailSegment\.A", r"^ParseIpFourAddress\.A", r"^Marks\..*\.A", r"^OnExitSegment\.A"],
    "C03": [r"^Parse[A-Za-z0-9]+\.A\.D$", r"^(FreeUriMembersMm|StopSyntaxMalloc|PushPathSegment)\.A", r"^ParseIpFourAddress\.A", r"^ParseIPv6address2\.K8\.A"],
    "C04": [r"^ToString\.content\..*\.A"],
    "C05": [r"^ToString\.cap\."],
    "C06": [r"^Wrappers\.A", r"^NullArgs\.A", r"^AddBaseUri\.A"],
    "C07": [r"^RemoveBaseUri\.A", r"^MakeOwner\.A", r"^NormalizeSyntax\.borrowed\.(scheme-query-fragment|all-short|path)\.A", r"^PushPathSegment\.A"],
    "C08": [r"^Wrappers\.A", r"^NormalizeSyntax\.(borrowed|owned)\.(scheme-query-fragment|authority|path|all-short)\.A", r"^NormalizeMaskRequired\..*\.A"],
    "C09": [r"^NormalizeSyntax\.(borrowed|owned)\.(path|all-short)\.A", r"^NormalizeSyntax\.borrowed\.(dots|netpath)\.A"],
    "C10": [r"^Wrappers\.A", r"^NullArgs\.A", r"^RemoveBaseUri\."],
    "C11": [r"."],
    "C12": [r"^Watch\.(AddBaseUri|Readers|NormalizeMaskRequired|ComposeQuery)\.A", r"^MakeOwner\.", r"^NormalizeSyntax\.borrowed\.authority\.A", r"^EqualsUri\.A", r"^ToString\.cap\.regname\.A", r"^NormalizeMaskRequired\.authority\.A"],
    "C13": [r"^Wrappers\.A", r"^DefaultManager\.A", r"^NullArgs\.A", r"^ManagerEntry\.A", r"^static\.", r"^FreeUriMembersMm\.A", r"^MakeOwner\.A", r"^DissectQuery\.A", r"^uriMemoryManagerIsComplete", r"^AppendQueryItem\.A", r"^ComposeQueryMalloc\.A"],
    "C14": [r"^NullArgs\.A", r"^ManagerEntry\.A", r"^AddBaseUri\.A", r"^MakeOwner\.A", r"^DissectQuery\.A", r"^AppendQueryItem\.A", r"^StopSyntaxMalloc\.A", r"^PushPathSegment\.A", r"^RemoveBaseUri\.A", r"^NormalizeSyntax\.borrowed\.path\.A"],
    "C15": [r"."],
    "C16": [r"^Wrappers\.A", r"^EscapeEx\.A\.N", r"^UnescapeInPlaceEx\.A\.N", r"^EscapeEx\.corner", r"Content\.", r"^EscapeRoundTrip\.", r"^UnescapeTokens\.A"],
    "C17": [r"^Wrappers\.A", r"^ComposeSizes\.", r"^DissectQuery\.", r"^AppendQueryItem\.A", r"^ComposeQuery\.", r"^ComposeQueryMalloc\."],
    "C18": [r"^FilenameRoundTrip", r"^FilenameShortForms\."],
    "C19": [r"^Wrappers\.W", r"^ParseIPv6address2\.layouts\.W", r"^DefaultManager\.W", r"^NullArgs\.W", r"^ManagerEntry\.W", r"^ComposeSizes\.W", r"^Marks\.Parse(UriTail|AuthorityTwo|OwnUserInfo)\.W", r"^ComposeQueryMalloc\.W", r"^EqualsUri\.W", r"^CompareRange\.W", r"^ToString\.cap\..*\.W", r"^MakeOwner\.W", r"^RemoveBaseUri\.W", r"^DissectQuery\.W", r"Content\.W", r"^EscapeRoundTrip\.W",
            r"^OnExitHost\.W", r"^NormalizeMaskRequired\..*\.W", r"^Dispatch\.Parse(PctEncoded|UriReference|OwnHost2|IpFuture)\.W", r"^FilenameShortForms\.W"],
    "C20": [r"^static\.", r"^Watch\..*\.A", r"^Watch\.(AddBaseUri|ComposeQuery)\.W", r"^EqualsUri\.A", r"^ToString\.cap\.regname\.A", r"^MakeOwner\.A"],
}


def in_quick(o, prop):
    return any(_re.search(p, o["id"]) for p in QUICK.get(prop, [r"."]))
