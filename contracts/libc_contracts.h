/* libc_contracts.h - ASSUMED contracts of C library functions, used with --replace-call-with-contract in route D.
 * They are never verified (trusted base, DESIGN section 6).  Each call is logged in ghost variables so that a caller's
 * contract can say *which* call was made with *which* arguments (dispatch style, DESIGN P9). */
#ifndef LIBC_CONTRACTS_H
#define LIBC_CONTRACTS_H
#include <stddef.h>
#include <string.h>
#include <wchar.h>

/* ghost log of the last string comparison */
unsigned g_cmp_calls;
const void *g_cmp_a, *g_cmp_b;
size_t g_cmp_n;
int g_cmp_ret;

int strncmp(const char *a, const char *b, size_t n)
__CPROVER_requires(n == 0 || (__CPROVER_r_ok(a, n) && __CPROVER_r_ok(b, n)))
__CPROVER_assigns(g_cmp_calls, g_cmp_a, g_cmp_b, g_cmp_n, g_cmp_ret)
__CPROVER_ensures(g_cmp_calls == __CPROVER_old(g_cmp_calls) + 1 && g_cmp_a == a && g_cmp_b == b && g_cmp_n == n
	&& g_cmp_ret == __CPROVER_return_value)
;
int wcsncmp(const wchar_t *a, const wchar_t *b, size_t n)
__CPROVER_requires(n == 0 || (__CPROVER_r_ok(a, n * sizeof(wchar_t)) && __CPROVER_r_ok(b, n * sizeof(wchar_t))))
__CPROVER_assigns(g_cmp_calls, g_cmp_a, g_cmp_b, g_cmp_n, g_cmp_ret)
__CPROVER_ensures(g_cmp_calls == __CPROVER_old(g_cmp_calls) + 1 && g_cmp_a == a && g_cmp_b == b && g_cmp_n == n
	&& g_cmp_ret == __CPROVER_return_value)
;
#endif
