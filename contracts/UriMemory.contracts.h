/* Function contracts for src/UriMemory.c (property C15), attached by prior declaration.
 * Representation invariant hdr(p, s): a block handed out at p with size s is the tail of a backend block
 * base = p - sizeof(size_t) of sizeof(size_t) + s bytes whose first word is s. */
#ifndef URIMEMORY_CONTRACTS_H
#define URIMEMORY_CONTRACTS_H
#include <errno.h>
#include <stdint.h>
#include <uriparser/UriBase.h>

/* errno is modelled as a plain global (the platform macro expands to a call of __errno_location(), which cannot
 * appear in an assigns clause); thread-locality is irrelevant to a sequential contract.  Stated in evidence. */
#undef errno
int g_errno;
#define errno g_errno

#define HDRSZ (sizeof(size_t))

/* ---- ghost log of calls into the *backend* (the caller-supplied malloc/free pair) ---- */
unsigned g_be_mallocs, g_be_frees;
size_t g_be_malloc_size;
void *g_be_malloc_ret;
void *g_be_free_ptr;

/* ASSUMED contract of the backend's malloc: NULL or a fresh block of the requested size */
void *be_malloc_contract(UriMemoryManager *m, size_t size)
__CPROVER_assigns(g_be_mallocs, g_be_malloc_size, g_be_malloc_ret)
__CPROVER_ensures(__CPROVER_return_value == NULL || __CPROVER_is_fresh(__CPROVER_return_value, size))
__CPROVER_ensures(g_be_mallocs == __CPROVER_old(g_be_mallocs) + 1 && g_be_malloc_size == size
	&& g_be_malloc_ret == __CPROVER_return_value)
;
/* ASSUMED contract of the backend's free: accepts exactly a pointer it handed out (checked at every call site) */
void be_free_contract(UriMemoryManager *m, void *p)
__CPROVER_requires(p != NULL && __CPROVER_is_freeable(p))
__CPROVER_assigns(g_be_frees, g_be_free_ptr)
__CPROVER_frees(p)
__CPROVER_ensures(g_be_frees == __CPROVER_old(g_be_frees) + 1 && g_be_free_ptr == p)
;

/* ghost: base pointer and size of the block passed to free/realloc */
void *g_base;
size_t g_sz;

static void *uriDecorateMalloc(UriMemoryManager *memory, size_t size)
__CPROVER_requires(memory == NULL || __CPROVER_is_fresh(memory, sizeof(*memory)))
__CPROVER_requires(memory == NULL || memory->userData == NULL
	|| (__CPROVER_is_fresh(memory->userData, sizeof(UriMemoryManager))
		&& __CPROVER_obeys_contract(((UriMemoryManager *)memory->userData)->malloc, be_malloc_contract)))
__CPROVER_assigns(g_errno, g_be_mallocs, g_be_malloc_size, g_be_malloc_ret)
/* argument errors, in the order the code tests them: NULL manager, size + header overflow (refused with ENOMEM
 * before the backend is asked), no backend */
__CPROVER_ensures(memory == NULL ==>
	__CPROVER_return_value == NULL && g_errno == EINVAL && g_be_mallocs == __CPROVER_old(g_be_mallocs))
__CPROVER_ensures((memory != NULL && size > SIZE_MAX - HDRSZ) ==>
	__CPROVER_return_value == NULL && g_errno == ENOMEM && g_be_mallocs == __CPROVER_old(g_be_mallocs))
__CPROVER_ensures((memory != NULL && size <= SIZE_MAX - HDRSZ && memory->userData == NULL) ==>
	__CPROVER_return_value == NULL && g_errno == EINVAL && g_be_mallocs == __CPROVER_old(g_be_mallocs))
/* otherwise exactly one backend request of size + header */
__CPROVER_ensures((memory != NULL && memory->userData != NULL && size <= SIZE_MAX - HDRSZ) ==>
	g_be_mallocs == __CPROVER_old(g_be_mallocs) + 1 && g_be_malloc_size == size + HDRSZ)
/* backend failure surfaces as NULL */
__CPROVER_ensures((memory != NULL && memory->userData != NULL && size <= SIZE_MAX - HDRSZ && g_be_malloc_ret == NULL) ==>
	__CPROVER_return_value == NULL)
/* success establishes hdr(ret, size); the client's part is usable over its full size */
__CPROVER_ensures((memory != NULL && memory->userData != NULL && size <= SIZE_MAX - HDRSZ && g_be_malloc_ret != NULL) ==>
	__CPROVER_return_value == (char *)g_be_malloc_ret + HDRSZ)
__CPROVER_ensures((memory != NULL && memory->userData != NULL && size <= SIZE_MAX - HDRSZ && g_be_malloc_ret != NULL) ==>
	*(size_t *)((char *)__CPROVER_return_value - HDRSZ) == size)
__CPROVER_ensures((memory != NULL && memory->userData != NULL && size <= SIZE_MAX - HDRSZ && g_be_malloc_ret != NULL) ==>
	__CPROVER_w_ok(__CPROVER_return_value, size))
;

static void uriDecorateFree(UriMemoryManager *memory, void *ptr)
__CPROVER_requires(memory == NULL || __CPROVER_is_fresh(memory, sizeof(*memory)))
__CPROVER_requires(memory == NULL || memory->userData == NULL
	|| (__CPROVER_is_fresh(memory->userData, sizeof(UriMemoryManager))
		&& __CPROVER_obeys_contract(((UriMemoryManager *)memory->userData)->free, be_free_contract)))
/* hdr(ptr, g_sz) */
__CPROVER_requires(g_sz <= SIZE_MAX - HDRSZ)
__CPROVER_requires(ptr == NULL || (__CPROVER_is_fresh(g_base, HDRSZ + g_sz) && ptr == (char *)g_base + HDRSZ))
__CPROVER_assigns(g_be_frees, g_be_free_ptr)
__CPROVER_frees(g_base)
__CPROVER_ensures((ptr == NULL || memory == NULL || memory->userData == NULL) ==> g_be_frees == __CPROVER_old(g_be_frees))
/* the backend block is released exactly once, with exactly the pointer the backend returned */
__CPROVER_ensures((ptr != NULL && memory != NULL && memory->userData != NULL) ==>
	g_be_frees == __CPROVER_old(g_be_frees) + 1 && g_be_free_ptr == g_base)
;

/* ---- ghost log of calls into the manager's own malloc/realloc members (used by calloc/reallocarray/realloc emulation) ---- */
unsigned g_mm_mallocs, g_mm_reallocs, g_mm_frees;
size_t g_mm_malloc_size, g_mm_realloc_size;
void *g_mm_malloc_ret, *g_mm_realloc_ptr, *g_mm_realloc_ret, *g_mm_free_ptr;

void *mm_malloc_contract(UriMemoryManager *m, size_t size)
__CPROVER_assigns(g_mm_mallocs, g_mm_malloc_size, g_mm_malloc_ret)
__CPROVER_ensures(__CPROVER_return_value == NULL || __CPROVER_is_fresh(__CPROVER_return_value, size))
__CPROVER_ensures(g_mm_mallocs == __CPROVER_old(g_mm_mallocs) + 1 && g_mm_malloc_size == size
	&& g_mm_malloc_ret == __CPROVER_return_value)
;
void *mm_realloc_contract(UriMemoryManager *m, void *p, size_t size)
__CPROVER_assigns(g_mm_reallocs, g_mm_realloc_size, g_mm_realloc_ptr, g_mm_realloc_ret)
__CPROVER_ensures(g_mm_reallocs == __CPROVER_old(g_mm_reallocs) + 1 && g_mm_realloc_size == size && g_mm_realloc_ptr == p
	&& g_mm_realloc_ret == __CPROVER_return_value)
;

/* uriEmulateCalloc: overflow of nmemb*size => NULL/ENOMEM without asking; else one malloc of the product, zero-filled */
size_t g_k; /* ghost index */
/* SPEC_MUL_OVERFLOWS(n, s): "the mathematical product n*s does not fit size_t".  It is written in the division form
 * because a 64-bit multiply/divide equivalence is out of reach of every installed SAT/SMT back end; the step from this
 * form to the mathematical statement  n*s >= 2^64  is lemma `mul_overflow_check` (spec/lemmas/MulOverflow.lean,
 * machine-checked by Lean 4 for all natural numbers below 2^64). */
#define SPEC_MUL_OVERFLOWS(n, s) ((n) != 0 && ((size_t)((n) * (s))) / (n) != (s))
/* ASSUMED libc contract */
void *memset(void *s, int c, size_t n)
__CPROVER_requires(n == 0 || __CPROVER_w_ok(s, n))
__CPROVER_assigns(__CPROVER_object_upto(s, n))
__CPROVER_ensures(__CPROVER_return_value == s)
__CPROVER_ensures(g_k < n ==> ((unsigned char *)s)[g_k] == (unsigned char)c)
;
void *uriEmulateCalloc(UriMemoryManager *memory, size_t nmemb, size_t size)
__CPROVER_requires(memory == NULL || (__CPROVER_is_fresh(memory, sizeof(*memory))
	&& __CPROVER_obeys_contract(memory->malloc, mm_malloc_contract)))
__CPROVER_assigns(g_errno, g_mm_mallocs, g_mm_malloc_size, g_mm_malloc_ret)
__CPROVER_ensures(memory == NULL ==> __CPROVER_return_value == NULL && g_errno == EINVAL
	&& g_mm_mallocs == __CPROVER_old(g_mm_mallocs))
__CPROVER_ensures((memory != NULL && SPEC_MUL_OVERFLOWS(nmemb, size)) ==>
	__CPROVER_return_value == NULL && g_errno == ENOMEM && g_mm_mallocs == __CPROVER_old(g_mm_mallocs))
__CPROVER_ensures((memory != NULL && !SPEC_MUL_OVERFLOWS(nmemb, size)) ==>
	g_mm_mallocs == __CPROVER_old(g_mm_mallocs) + 1 && g_mm_malloc_size == nmemb * size
	&& __CPROVER_return_value == g_mm_malloc_ret)
__CPROVER_ensures((memory != NULL && !SPEC_MUL_OVERFLOWS(nmemb, size) && __CPROVER_return_value != NULL
	&& g_k < nmemb * size) ==> ((unsigned char *)__CPROVER_return_value)[g_k] == 0)
;

void *uriEmulateReallocarray(UriMemoryManager *memory, void *ptr, size_t nmemb, size_t size)
__CPROVER_requires(memory == NULL || (__CPROVER_is_fresh(memory, sizeof(*memory))
	&& __CPROVER_obeys_contract(memory->realloc, mm_realloc_contract)))
__CPROVER_assigns(g_errno, g_mm_reallocs, g_mm_realloc_size, g_mm_realloc_ptr, g_mm_realloc_ret)
__CPROVER_ensures(memory == NULL ==> __CPROVER_return_value == NULL && g_errno == EINVAL
	&& g_mm_reallocs == __CPROVER_old(g_mm_reallocs))
__CPROVER_ensures((memory != NULL && SPEC_MUL_OVERFLOWS(nmemb, size)) ==>
	__CPROVER_return_value == NULL && g_errno == ENOMEM && g_mm_reallocs == __CPROVER_old(g_mm_reallocs))
__CPROVER_ensures((memory != NULL && !SPEC_MUL_OVERFLOWS(nmemb, size)) ==>
	g_mm_reallocs == __CPROVER_old(g_mm_reallocs) + 1 && g_mm_realloc_size == nmemb * size && g_mm_realloc_ptr == ptr
	&& __CPROVER_return_value == g_mm_realloc_ret)
;

/* ASSUMED libc contract (ghost-indexed content) */
void *memcpy(void *dst, const void *src, size_t n)
__CPROVER_requires(n == 0 || (__CPROVER_w_ok(dst, n) && __CPROVER_r_ok(src, n)))
__CPROVER_assigns(__CPROVER_object_upto(dst, n))
__CPROVER_ensures(__CPROVER_return_value == dst)
__CPROVER_ensures(g_k < n ==> ((unsigned char *)dst)[g_k] == ((const unsigned char *)src)[g_k])
;
/* contract of the manager's own free member as uriDecorateRealloc uses it: it is handed exactly the client pointer
 * of the hdr block (uriDecorateFree's precondition); the release itself is uriDecorateFree's obligation */
void mm_free_contract(UriMemoryManager *m, void *p)
__CPROVER_requires(p != NULL && p == (char *)g_base + HDRSZ)
__CPROVER_assigns(g_mm_frees, g_mm_free_ptr)
__CPROVER_ensures(g_mm_frees == __CPROVER_old(g_mm_frees) + 1 && g_mm_free_ptr == p)
;

static void *uriDecorateRealloc(UriMemoryManager *memory, void *ptr, size_t size)
__CPROVER_requires(memory == NULL || (__CPROVER_is_fresh(memory, sizeof(*memory))
	&& __CPROVER_obeys_contract(memory->malloc, mm_malloc_contract)
	&& __CPROVER_obeys_contract(memory->free, mm_free_contract)))
__CPROVER_requires(g_sz <= SIZE_MAX - HDRSZ)
/* hdr(ptr, g_sz) */
/* (the harness builds the block by real assignments: CBMC cannot dereference a pointer that is only *assumed* equal
 * to another one, so is_fresh() on a ghost base plus an equality on ptr would leave *ptr unreadable) */
__CPROVER_requires(ptr == NULL || (__CPROVER_rw_ok(g_base, HDRSZ + g_sz) && ptr == (char *)g_base + HDRSZ
	&& *(size_t *)g_base == g_sz))
__CPROVER_assigns(g_errno, g_mm_mallocs, g_mm_malloc_size, g_mm_malloc_ret, g_mm_frees, g_mm_free_ptr)
__CPROVER_ensures(memory == NULL ==> __CPROVER_return_value == NULL && g_errno == EINVAL
	&& g_mm_mallocs == __CPROVER_old(g_mm_mallocs) && g_mm_frees == __CPROVER_old(g_mm_frees))
/* NULL pointer: equivalent to malloc(size) for all sizes */
__CPROVER_ensures((memory != NULL && ptr == NULL) ==>
	g_mm_mallocs == __CPROVER_old(g_mm_mallocs) + 1 && g_mm_malloc_size == size
	&& __CPROVER_return_value == g_mm_malloc_ret && g_mm_frees == __CPROVER_old(g_mm_frees))
/* size 0 with a block: equivalent to free(ptr), result NULL */
__CPROVER_ensures((memory != NULL && ptr != NULL && size == 0) ==>
	__CPROVER_return_value == NULL && g_mm_frees == __CPROVER_old(g_mm_frees) + 1 && g_mm_free_ptr == ptr
	&& g_mm_mallocs == __CPROVER_old(g_mm_mallocs))
/* shrink or same size: the same block, untouched, still hdr */
__CPROVER_ensures((memory != NULL && ptr != NULL && size != 0 && size <= g_sz) ==>
	__CPROVER_return_value == ptr && g_mm_mallocs == __CPROVER_old(g_mm_mallocs)
	&& g_mm_frees == __CPROVER_old(g_mm_frees) && *(size_t *)((char *)ptr - HDRSZ) == g_sz)
/* grow: one request for the new size */
__CPROVER_ensures((memory != NULL && ptr != NULL && size > g_sz) ==>
	g_mm_mallocs == __CPROVER_old(g_mm_mallocs) + 1 && g_mm_malloc_size == size)
/* grow, request refused: NULL, old block intact (not released, header unchanged) */
__CPROVER_ensures((memory != NULL && ptr != NULL && size > g_sz && g_mm_malloc_ret == NULL) ==>
	__CPROVER_return_value == NULL && g_mm_frees == __CPROVER_old(g_mm_frees)
	&& *(size_t *)((char *)ptr - HDRSZ) == g_sz)
/* grow, success: new block returned, old one released exactly once, common prefix preserved */
__CPROVER_ensures((memory != NULL && ptr != NULL && size > g_sz && g_mm_malloc_ret != NULL) ==>
	__CPROVER_return_value == g_mm_malloc_ret && g_mm_frees == __CPROVER_old(g_mm_frees) + 1 && g_mm_free_ptr == ptr)
__CPROVER_ensures((memory != NULL && ptr != NULL && size > g_sz && g_mm_malloc_ret != NULL && g_k < g_sz) ==>
	((unsigned char *)__CPROVER_return_value)[g_k] == ((unsigned char *)ptr)[g_k])
;

void *uriEmulateCalloc(UriMemoryManager *memory, size_t nmemb, size_t size);
void *uriEmulateReallocarray(UriMemoryManager *memory, void *ptr, size_t nmemb, size_t size);
static void *uriDecorateMalloc(UriMemoryManager *memory, size_t size);
static void uriDecorateFree(UriMemoryManager *memory, void *ptr);

int uriCompleteMemoryManager(UriMemoryManager *memory, UriMemoryManager *backend)
__CPROVER_requires(memory == NULL || __CPROVER_is_fresh(memory, sizeof(*memory)))
__CPROVER_requires(backend == NULL || __CPROVER_is_fresh(backend, sizeof(*backend)))
__CPROVER_assigns(memory != NULL && backend != NULL && backend->malloc != NULL && backend->free != NULL: *memory)
__CPROVER_ensures((memory == NULL || backend == NULL) ==> __CPROVER_return_value == URI_ERROR_NULL)
__CPROVER_ensures((memory != NULL && backend != NULL && (backend->malloc == NULL || backend->free == NULL)) ==>
	__CPROVER_return_value == URI_ERROR_MEMORY_MANAGER_INCOMPLETE)
__CPROVER_ensures((memory != NULL && backend != NULL && backend->malloc != NULL && backend->free != NULL) ==>
	__CPROVER_return_value == URI_SUCCESS
	&& memory->malloc == uriDecorateMalloc && memory->calloc == uriEmulateCalloc
	&& memory->realloc == uriDecorateRealloc && memory->reallocarray == uriEmulateReallocarray
	&& memory->free == uriDecorateFree && memory->userData == backend)
/* the backend table itself is only read */
__CPROVER_ensures(backend == NULL || (backend->malloc == __CPROVER_old(backend->malloc) && backend->free == __CPROVER_old(backend->free)))
;

UriBool uriMemoryManagerIsComplete(const UriMemoryManager *memory)
__CPROVER_requires(memory == NULL || __CPROVER_is_fresh(memory, sizeof(*memory)))
__CPROVER_assigns()
__CPROVER_ensures(__CPROVER_return_value == ((memory != NULL && memory->malloc != NULL && memory->calloc != NULL
	&& memory->realloc != NULL && memory->reallocarray != NULL && memory->free != NULL) ? URI_TRUE : URI_FALSE))
;
#endif
