/* Function contracts for the recursive-descent parser of src/UriParse.c (properties C03, and the safety half of C01/C02),
 * attached to the real static functions by prior declaration.  One *interface contract* shared by every rule function:
 *
 *   requires  the input is the character range [g_in, g_in+g_inlen) of one object; first <= afterLast are aligned
 *             positions in it; the parser-state invariant PINV holds (every "BEGIN" mark recorded so far is NULL, the
 *             placeholder, or a position in [g_in, first]); state, state->uri and the memory manager are valid objects
 *   ensures   result is NULL or a position in [first, afterLast];
 *             NULL  => errorCode is SYNTAX with errorPos a position in [first, afterLast], or MALLOC with errorPos NULL,
 *                      and nothing is left allocated in *uri (pathHead/pathTail/ip4/ip6 are NULL);
 *             !NULL => PINV holds with respect to the result
 *   assigns   the parser state and the Uri structure only - in particular **no input character** (a write to the input is
 *             a failed frame obligation), and every read is checked against the bounds of the input object, which is
 *             allocated by the harness with exactly g_inlen characters (a read past afterLast == end is a failed memory
 *             obligation; for afterLast < end the dispatch obligations of C01 decide independence of what follows).
 *
 * Recursion is discharged by induction (--enforce-contract-rec replaces recursive calls by this very contract); every
 * other callee is replaced by its contract, which is the same text and is enforced on that callee by its own obligation. */
#ifndef URIPARSE_CONTRACTS_H
#define URIPARSE_CONTRACTS_H
#include "vtypes.h"

/* ghost: the input range (set by the harness, never assigned by the code) */
const URI_CHAR *g_in;
size_t g_inlen;
/* ghost ledger of the memory manager contracts below */
unsigned g_pm_mallocs, g_pm_frees;

#define P_OFF(p) ((size_t)__CPROVER_POINTER_OFFSET(p))
#define P_ALIGNED(p) (P_OFF(p) % sizeof(URI_CHAR) == 0)
/* p is a position in [lo, hi] of the input object (usable in assume context: binds p to the object first) */
#define P_POS(lo, p, hi) (__CPROVER_pointer_in_range_dfcc((lo), (p), (hi)) && P_ALIGNED(p))
/* a recorded mark: NULL, the placeholder, or a position in [g_in, upto] */
#define P_MARK(p, upto) ((p) == NULL || (p) == URI_FUNC(SafeToPointTo) \
	|| (__CPROVER_same_object((p), g_in) && P_OFF(p) <= P_OFF(upto) && P_ALIGNED(p)))
#define P_INV(st, upto) (P_MARK((st)->uri->scheme.first, upto) && P_MARK((st)->uri->userInfo.first, upto) \
	&& P_MARK((st)->uri->hostText.first, upto) && P_MARK((st)->uri->hostText.afterLast, upto) \
	&& P_MARK((st)->uri->portText.first, upto) && P_MARK((st)->uri->portText.afterLast, upto) \
	&& P_MARK((st)->uri->query.first, upto) && P_MARK((st)->uri->fragment.first, upto))
#define P_CLEAN(st) ((st)->uri->pathHead == NULL && (st)->uri->pathTail == NULL && (st)->uri->hostData.ip4 == NULL \
	&& (st)->uri->hostData.ip6 == NULL)
#define P_FAIL(st, first, afterLast) ((((st)->errorCode == URI_ERROR_SYNTAX && (st)->errorPos != NULL \
		&& __CPROVER_same_object((st)->errorPos, g_in) && P_OFF(first) <= P_OFF((st)->errorPos) \
		&& P_OFF((st)->errorPos) <= P_OFF(afterLast) && P_ALIGNED((st)->errorPos)) \
	|| ((st)->errorCode == URI_ERROR_MALLOC && (st)->errorPos == NULL)) && P_CLEAN(st))

/* ---- ASSUMED contracts of the caller's memory manager (function-pointer members) ---- */
void *pm_malloc_contract(UriMemoryManager *m, size_t size)
__CPROVER_assigns(g_pm_mallocs)
__CPROVER_ensures(__CPROVER_return_value == NULL || __CPROVER_is_fresh(__CPROVER_return_value, size))
__CPROVER_ensures(g_pm_mallocs == __CPROVER_old(g_pm_mallocs) + 1)
;
void *pm_calloc_contract(UriMemoryManager *m, size_t n, size_t size)
__CPROVER_assigns(g_pm_mallocs)
__CPROVER_ensures(__CPROVER_return_value == NULL || __CPROVER_is_fresh(__CPROVER_return_value, n * size))
__CPROVER_ensures(g_pm_mallocs == __CPROVER_old(g_pm_mallocs) + 1)
;
void pm_free_contract(UriMemoryManager *m, void *p)
__CPROVER_requires(p == NULL || __CPROVER_is_freeable(p))
__CPROVER_assigns(g_pm_frees)
__CPROVER_frees(p)
__CPROVER_ensures(g_pm_frees == __CPROVER_old(g_pm_frees) + 1)
;
#define P_MEMORY(m) (__CPROVER_is_fresh((m), sizeof(UriMemoryManager)) \
	&& __CPROVER_obeys_contract((m)->malloc, pm_malloc_contract) && __CPROVER_obeys_contract((m)->calloc, pm_calloc_contract) \
	&& __CPROVER_obeys_contract((m)->free, pm_free_contract))

#define P_REQUIRES_COMMON \
	__CPROVER_requires(__CPROVER_is_fresh(state, sizeof(*state)) && __CPROVER_is_fresh(state->uri, sizeof(*(state->uri)))) \
	__CPROVER_requires(g_inlen < (1UL << 40) && P_OFF(g_in) == 0 && __CPROVER_r_ok(g_in, g_inlen * sizeof(URI_CHAR))) \
	__CPROVER_requires(__CPROVER_same_object(first, g_in) && __CPROVER_same_object(afterLast, g_in) && P_ALIGNED(first) && P_ALIGNED(afterLast) \
		&& P_OFF(first) <= P_OFF(afterLast) && P_OFF(afterLast) <= g_inlen * sizeof(URI_CHAR)) \
	__CPROVER_requires(P_INV(state, first)) P_MARKS_REQUIRES
#define P_ENSURES_COMMON \
	__CPROVER_ensures(__CPROVER_return_value == NULL || P_POS(first, __CPROVER_return_value, afterLast)) \
	__CPROVER_ensures(__CPROVER_return_value == NULL ==> P_FAIL(state, first, afterLast)) \
	__CPROVER_ensures(__CPROVER_return_value != NULL ==> P_INV(state, __CPROVER_return_value))
#define P_ASSIGNS_COMMON \
	__CPROVER_assigns(state->errorCode, state->errorPos, *(state->uri), g_pm_mallocs, g_pm_frees)

/* ---- ghost call trace (dispatch obligations, -DP_LOG): every rule function's interface contract appends
 * (rule id, position argument, result); the code never reads these variables ---- */
#ifdef P_LOG
# define TRMAX 6
unsigned g_tr_n;
int g_tr_rule[TRMAX];
const URI_CHAR *g_tr_first[TRMAX];
const URI_CHAR *g_tr_ret[TRMAX];
# define P_IDOF(Name) P_ID_##Name
# define P_LOG_REQUIRES __CPROVER_requires(g_tr_n < TRMAX)
# define P_LOG_ASSIGNS , g_tr_n, g_tr_rule[g_tr_n], g_tr_first[g_tr_n], g_tr_ret[g_tr_n]
# define P_LOG_ENSURES(Id) __CPROVER_ensures(g_tr_n == __CPROVER_old(g_tr_n) + 1 && g_tr_rule[__CPROVER_old(g_tr_n)] == (Id) \
	&& g_tr_first[__CPROVER_old(g_tr_n)] == first && g_tr_ret[__CPROVER_old(g_tr_n)] == __CPROVER_return_value)
#else
# define P_IDOF(Name) 0
# define P_LOG_REQUIRES
# define P_LOG_ASSIGNS
# define P_LOG_ENSURES(Id)
#endif

/* ---- mark actions (C02; obligations Marks.*, -DP_MARKS): which of the fifteen recorded marks a rule function may change,
 * and - for the functions that record a component boundary themselves - which value it records.
 *   M_<F>   the marks F or anything it calls may change (FROZEN table: transitive closure of the assignments in the tree
 *           this machinery was built on; by the RFC a path rule never touches a mark, the authority rules only the
 *           authority marks, the tail rules only query/fragment).  Every rule function's contract says: on success every
 *           mark outside M_<F> has its entry value.  Each obligation proves that for its function from the same clause of
 *           its callees, so a new write to a foreign mark fails the obligation of the function that makes it.
 *   MI_<F>  further interface clause (holds for callers too), MP_<F> lookahead-specific clause of the enforced function:
 *           the recorded boundary is exactly `first`, `first + 1` or the position a callee returned. ---- */
#ifdef P_MARKS
# define MK_SF 0x0001u
# define MK_SA 0x0002u
# define MK_UF 0x0004u
# define MK_UA 0x0008u
# define MK_HF 0x0010u
# define MK_HA 0x0020u
# define MK_PF 0x0040u
# define MK_PA 0x0080u
# define MK_QF 0x0100u
# define MK_QA 0x0200u
# define MK_FF 0x0400u
# define MK_FA 0x0800u
# define MK_IF 0x1000u
# define MK_IA 0x2000u
# define MK_AP 0x4000u
# define P_KF(M, bit, fld) ((((M) & (bit)) != 0u) || state->uri->fld == __CPROVER_old(state->uri->fld))
# define P_KEEPS(M) (P_KF(M, MK_SF, scheme.first) && P_KF(M, MK_SA, scheme.afterLast) && P_KF(M, MK_UF, userInfo.first) \
	&& P_KF(M, MK_UA, userInfo.afterLast) && P_KF(M, MK_HF, hostText.first) && P_KF(M, MK_HA, hostText.afterLast) \
	&& P_KF(M, MK_PF, portText.first) && P_KF(M, MK_PA, portText.afterLast) && P_KF(M, MK_QF, query.first) \
	&& P_KF(M, MK_QA, query.afterLast) && P_KF(M, MK_FF, fragment.first) && P_KF(M, MK_FA, fragment.afterLast) \
	&& P_KF(M, MK_IF, hostData.ipFuture.first) && P_KF(M, MK_IA, hostData.ipFuture.afterLast) && P_KF(M, MK_AP, absolutePath))
# define P_MARKS_ENSURES(M, MI) __CPROVER_ensures(__CPROVER_return_value != NULL ==> (P_KEEPS(M) && (MI)))
# define P_MARKS_ENSURES_BOOL(M) __CPROVER_ensures(P_KEEPS(M))
# define MU(fld) (state->uri->fld)
# define MOLD(fld) __CPROVER_old(state->uri->fld)
# define M_ParseAuthority (MK_UF|MK_UA|MK_HF|MK_HA|MK_PF|MK_PA|MK_IF|MK_IA)
# define M_ParseAuthorityTwo (MK_PF|MK_PA)
# define M_ParseHexZero (0u)
# define M_ParseHierPart (MK_UF|MK_UA|MK_HF|MK_HA|MK_PF|MK_PA|MK_IF|MK_IA|MK_AP)
# define M_ParseIpFutLoop (0u)
# define M_ParseIpFutStopGo (0u)
# define M_ParseIpFuture (MK_HF|MK_HA|MK_IF|MK_IA)
# define M_ParseIpLit2 (MK_HF|MK_HA|MK_IF|MK_IA)
# define M_ParseIPv6address2 (MK_HA)
# define M_ParseMustBeSegmentNzNc (MK_SF|MK_QF|MK_QA|MK_FF|MK_FA)
# define M_ParseOwnHost (MK_HF|MK_HA|MK_PF|MK_PA|MK_IF|MK_IA)
# define M_OnExitOwnHost2 (MK_HA)
# define M_ParseOwnHost2 (MK_HA|MK_PF|MK_PA)
# define M_OnExitOwnHostUserInfo (MK_UF|MK_HF|MK_HA)
# define M_ParseOwnHostUserInfo (MK_UF|MK_UA|MK_HF|MK_HA|MK_PF|MK_PA|MK_IF|MK_IA)
# define M_ParseOwnHostUserInfoNz (MK_UF|MK_UA|MK_HF|MK_HA|MK_PF|MK_PA|MK_IF|MK_IA)
# define M_OnExitOwnPortUserInfo (MK_UF|MK_HF|MK_PA)
# define M_ParseOwnPortUserInfo (MK_UF|MK_UA|MK_HF|MK_HA|MK_PF|MK_PA|MK_IF|MK_IA)
# define M_ParseOwnUserInfo (MK_UA|MK_HF|MK_HA|MK_PF|MK_PA|MK_IF|MK_IA)
# define M_OnExitPartHelperTwo (MK_AP)
# define M_ParsePartHelperTwo (MK_UF|MK_UA|MK_HF|MK_HA|MK_PF|MK_PA|MK_IF|MK_IA|MK_AP)
# define M_ParsePathAbsEmpty (0u)
# define M_ParsePathAbsNoLeadSlash (0u)
# define M_ParsePathRootless (0u)
# define M_ParsePchar (0u)
# define M_ParsePctEncoded (0u)
# define M_ParsePctSubUnres (0u)
# define M_ParsePort (0u)
# define M_ParseQueryFrag (0u)
# define M_ParseSegment (0u)
# define M_ParseSegmentNz (0u)
# define M_OnExitSegmentNzNcOrScheme2 (MK_SF)
# define M_ParseSegmentNzNcOrScheme2 (MK_SF|MK_SA|MK_UF|MK_UA|MK_HF|MK_HA|MK_PF|MK_PA|MK_QF|MK_QA|MK_FF|MK_FA|MK_IF|MK_IA|MK_AP)
# define M_ParseUriReference (MK_SF|MK_SA|MK_UF|MK_UA|MK_HF|MK_HA|MK_PF|MK_PA|MK_QF|MK_QA|MK_FF|MK_FA|MK_IF|MK_IA|MK_AP)
# define M_ParseUriTail (MK_QF|MK_QA|MK_FF|MK_FA)
# define M_ParseUriTailTwo (MK_FF|MK_FA)
# define M_ParseZeroMoreSlashSegs (0u)
/* interface clauses */
# define MI_DEFAULT 1
/* the scheme-or-segment rules keep the provisional scheme start or withdraw it ("not a scheme"), nothing else */
# define MI_ParseSegmentNzNcOrScheme2 (MU(scheme.first) == MOLD(scheme.first) || MU(scheme.first) == NULL)
# define MI_ParseMustBeSegmentNzNc (MU(scheme.first) == NULL)
/* likewise the provisional user-info start: kept, or withdrawn when the text turns out to be the host */
# define MI_ParseOwnHostUserInfo (MU(userInfo.first) == MOLD(userInfo.first) || MU(userInfo.first) == NULL)
# define MI_ParseOwnHostUserInfoNz (MU(userInfo.first) == MOLD(userInfo.first) || MU(userInfo.first) == NULL)
# define MI_ParseOwnPortUserInfo (MU(userInfo.first) == MOLD(userInfo.first) || MU(userInfo.first) == NULL)
/* the rules behind a decided user info / inside the host never leave the port start or the host end pointing in front of
 * their own start: kept, withdrawn (NULL), or recorded at/behind `first` */
# define MK_FWD(fld) (MU(fld) == MOLD(fld) || MU(fld) == NULL || (__CPROVER_same_object(MU(fld), first) && P_OFF(MU(fld)) >= P_OFF(first)))
# define MI_FWD (MK_FWD(portText.first) && MK_FWD(hostText.afterLast))
/* a percent-encoding consumes at least one character */
# define MI_ParsePctEncoded (P_OFF(__CPROVER_return_value) > P_OFF(first))
# define MI_ParseOwnUserInfo MI_FWD
# define MI_ParseOwnHost2 MI_FWD
# define MI_ParseIpLit2 MI_FWD
# define MI_ParseIpFuture MI_FWD
# define MI_ParseIPv6address2 MI_FWD
/* the host rule keeps the recorded host start or, for a bracketed literal, records the position behind '[' */
# define MI_ParseOwnHost ((MU(hostText.first) == MOLD(hostText.first) || (MK_LA('[') && MK_AT1(MU(hostText.first)))) && MI_FWD)
/* the query/fragment rules record the range they matched */
# define MI_ParseUriTailTwo (MU(fragment.first) == MOLD(fragment.first) \
	? MU(fragment.afterLast) == MOLD(fragment.afterLast) : (MK_AT1(MU(fragment.first)) && MU(fragment.afterLast) == __CPROVER_return_value))
# define MI_ParseAuthorityTwo (MU(portText.first) == MOLD(portText.first) \
	? MU(portText.afterLast) == MOLD(portText.afterLast) : (MK_AT1(MU(portText.first)) && MU(portText.afterLast) == __CPROVER_return_value))
/* lookahead-specific clauses (enforced function only; D_CH/D_F0/D_END as in the dispatch formula) */
# define MK_LA(c) (D_F0 < D_END && D_CH(D_F0) == _UT(c))
# define MK_ALPHA_LA (D_F0 < D_END && ((D_CH(D_F0) >= _UT('a') && D_CH(D_F0) <= _UT('z')) || (D_CH(D_F0) >= _UT('A') && D_CH(D_F0) <= _UT('Z'))))
# define MK_SAME(fld) (MU(fld) == MOLD(fld))
/* p is the position one character behind `first` (offsets, not `first + 1`: no pointer is formed behind the object) */
# define MK_AT1(p) (__CPROVER_same_object((p), first) && P_OFF(p) == P_OFF(first) + sizeof(URI_CHAR))
# define MP_ParseUriTailTwo (MK_LA('#') ? (MK_AT1(MU(fragment.first)) && MU(fragment.afterLast) == __CPROVER_return_value) \
	: (MK_SAME(fragment.first) && MK_SAME(fragment.afterLast)))
# define MP_ParseUriTail (MK_LA('#') ? (MK_AT1(MU(fragment.first)) && MU(fragment.afterLast) == __CPROVER_return_value && MK_SAME(query.first) && MK_SAME(query.afterLast)) \
	: MK_LA('?') ? (MK_AT1(MU(query.first)) && MU(query.afterLast) == g_tr_ret[0]) \
	: (MK_SAME(fragment.first) && MK_SAME(fragment.afterLast) && MK_SAME(query.first) && MK_SAME(query.afterLast)))
# define MP_ParseAuthorityTwo (MK_LA(':') ? (MK_AT1(MU(portText.first)) && MU(portText.afterLast) == __CPROVER_return_value) \
	: (MK_SAME(portText.first) && MK_SAME(portText.afterLast)))
# define MP_ParseSegmentNzNcOrScheme2 (!MK_LA(':') || (MU(scheme.afterLast) == first && MK_SAME(scheme.first)))
# define MP_ParseUriReference (!MK_ALPHA_LA || MU(scheme.first) == first || MU(scheme.first) == NULL)
# define MP_ParseIpFuture (MU(hostText.first) == first && MU(hostData.ipFuture.first) == first \
	&& MU(hostText.afterLast) == __CPROVER_return_value && MU(hostData.ipFuture.afterLast) == __CPROVER_return_value)
# define MP_ParseAuthority ((D_F0 >= D_END) ? (MU(hostText.first) == URI_FUNC(SafeToPointTo) && MU(hostText.afterLast) == URI_FUNC(SafeToPointTo) && MK_SAME(userInfo.first)) \
	: MK_LA('[') ? (MK_AT1(MU(hostText.first)) && MK_SAME(userInfo.first)) \
	: (MK_SAME(userInfo.first) || MU(userInfo.first) == first || MU(userInfo.first) == NULL))
# define MP_ParseOwnHost ((D_F0 >= D_END) ? (MU(hostText.afterLast) == afterLast && MK_SAME(hostText.first)) : (!MK_LA('[') || MK_AT1(MU(hostText.first))))
/* behind '@': the host starts one character on, or two when a bracketed literal follows ("@[") */
# define MK_AT1OR2(p) (__CPROVER_same_object((p), first) && (P_OFF(p) == P_OFF(first) + sizeof(URI_CHAR) \
	|| (P_OFF(p) == P_OFF(first) + 2 * sizeof(URI_CHAR) && D_F0 + 1 < D_END && D_CH(D_F0 + 1) == _UT('['))))
# define MK_AFTER_AT (MU(userInfo.afterLast) == first && MK_SAME(userInfo.first) && MK_AT1OR2(MU(hostText.first)))
# define MP_ParseOwnHostUserInfoNz (!MK_LA('@') || MK_AFTER_AT)
/* a character that decides "user info, not host:port" (anything consumed that is not a digit): the provisional port
 * start is withdrawn - afterwards it is absent or a position behind this character, never the stale one in front of it */
# define MK_DIGIT_LA (D_F0 < D_END && D_CH(D_F0) >= _UT('0') && D_CH(D_F0) <= _UT('9'))
# define MP_ParseOwnPortUserInfo ((!MK_LA('@') || MK_AFTER_AT) && (MK_DIGIT_LA || __CPROVER_return_value == first \
	|| MU(portText.first) == NULL || (__CPROVER_same_object(MU(portText.first), first) && P_OFF(MU(portText.first)) > P_OFF(first))))
# define MP_ParseOwnUserInfo (!MK_LA('@') || MK_AFTER_AT)
# ifndef MI_ParseAuthority
#  define MI_ParseAuthority MI_DEFAULT
# endif
# ifndef MP_ParseAuthority
#  define MP_ParseAuthority 1
# endif
# ifndef MI_ParseAuthorityTwo
#  define MI_ParseAuthorityTwo MI_DEFAULT
# endif
# ifndef MP_ParseAuthorityTwo
#  define MP_ParseAuthorityTwo 1
# endif
# ifndef MI_ParseHexZero
#  define MI_ParseHexZero MI_DEFAULT
# endif
# ifndef MP_ParseHexZero
#  define MP_ParseHexZero 1
# endif
# ifndef MI_ParseHierPart
#  define MI_ParseHierPart MI_DEFAULT
# endif
# ifndef MP_ParseHierPart
#  define MP_ParseHierPart 1
# endif
# ifndef MI_ParseIpFutLoop
#  define MI_ParseIpFutLoop MI_DEFAULT
# endif
# ifndef MP_ParseIpFutLoop
#  define MP_ParseIpFutLoop 1
# endif
# ifndef MI_ParseIpFutStopGo
#  define MI_ParseIpFutStopGo MI_DEFAULT
# endif
# ifndef MP_ParseIpFutStopGo
#  define MP_ParseIpFutStopGo 1
# endif
# ifndef MI_ParseIpFuture
#  define MI_ParseIpFuture MI_DEFAULT
# endif
# ifndef MP_ParseIpFuture
#  define MP_ParseIpFuture 1
# endif
# ifndef MI_ParseIpLit2
#  define MI_ParseIpLit2 MI_DEFAULT
# endif
# ifndef MP_ParseIpLit2
#  define MP_ParseIpLit2 1
# endif
# ifndef MI_ParseIPv6address2
#  define MI_ParseIPv6address2 MI_DEFAULT
# endif
# ifndef MP_ParseIPv6address2
#  define MP_ParseIPv6address2 1
# endif
# ifndef MI_ParseMustBeSegmentNzNc
#  define MI_ParseMustBeSegmentNzNc MI_DEFAULT
# endif
# ifndef MP_ParseMustBeSegmentNzNc
#  define MP_ParseMustBeSegmentNzNc 1
# endif
# ifndef MI_ParseOwnHost
#  define MI_ParseOwnHost MI_DEFAULT
# endif
# ifndef MP_ParseOwnHost
#  define MP_ParseOwnHost 1
# endif
# ifndef MI_ParseOwnHost2
#  define MI_ParseOwnHost2 MI_DEFAULT
# endif
# ifndef MP_ParseOwnHost2
#  define MP_ParseOwnHost2 1
# endif
# ifndef MI_ParseOwnHostUserInfo
#  define MI_ParseOwnHostUserInfo MI_DEFAULT
# endif
# ifndef MP_ParseOwnHostUserInfo
#  define MP_ParseOwnHostUserInfo 1
# endif
# ifndef MI_ParseOwnHostUserInfoNz
#  define MI_ParseOwnHostUserInfoNz MI_DEFAULT
# endif
# ifndef MP_ParseOwnHostUserInfoNz
#  define MP_ParseOwnHostUserInfoNz 1
# endif
# ifndef MI_ParseOwnPortUserInfo
#  define MI_ParseOwnPortUserInfo MI_DEFAULT
# endif
# ifndef MP_ParseOwnPortUserInfo
#  define MP_ParseOwnPortUserInfo 1
# endif
# ifndef MI_ParseOwnUserInfo
#  define MI_ParseOwnUserInfo MI_DEFAULT
# endif
# ifndef MP_ParseOwnUserInfo
#  define MP_ParseOwnUserInfo 1
# endif
# ifndef MI_ParsePartHelperTwo
#  define MI_ParsePartHelperTwo MI_DEFAULT
# endif
# ifndef MP_ParsePartHelperTwo
#  define MP_ParsePartHelperTwo 1
# endif
# ifndef MI_ParsePathAbsEmpty
#  define MI_ParsePathAbsEmpty MI_DEFAULT
# endif
# ifndef MP_ParsePathAbsEmpty
#  define MP_ParsePathAbsEmpty 1
# endif
# ifndef MI_ParsePathAbsNoLeadSlash
#  define MI_ParsePathAbsNoLeadSlash MI_DEFAULT
# endif
# ifndef MP_ParsePathAbsNoLeadSlash
#  define MP_ParsePathAbsNoLeadSlash 1
# endif
# ifndef MI_ParsePathRootless
#  define MI_ParsePathRootless MI_DEFAULT
# endif
# ifndef MP_ParsePathRootless
#  define MP_ParsePathRootless 1
# endif
# ifndef MI_ParsePchar
#  define MI_ParsePchar MI_DEFAULT
# endif
# ifndef MP_ParsePchar
#  define MP_ParsePchar 1
# endif
# ifndef MI_ParsePctEncoded
#  define MI_ParsePctEncoded MI_DEFAULT
# endif
# ifndef MP_ParsePctEncoded
#  define MP_ParsePctEncoded 1
# endif
# ifndef MI_ParsePctSubUnres
#  define MI_ParsePctSubUnres MI_DEFAULT
# endif
# ifndef MP_ParsePctSubUnres
#  define MP_ParsePctSubUnres 1
# endif
# ifndef MI_ParsePort
#  define MI_ParsePort MI_DEFAULT
# endif
# ifndef MP_ParsePort
#  define MP_ParsePort 1
# endif
# ifndef MI_ParseQueryFrag
#  define MI_ParseQueryFrag MI_DEFAULT
# endif
# ifndef MP_ParseQueryFrag
#  define MP_ParseQueryFrag 1
# endif
# ifndef MI_ParseSegment
#  define MI_ParseSegment MI_DEFAULT
# endif
# ifndef MP_ParseSegment
#  define MP_ParseSegment 1
# endif
# ifndef MI_ParseSegmentNz
#  define MI_ParseSegmentNz MI_DEFAULT
# endif
# ifndef MP_ParseSegmentNz
#  define MP_ParseSegmentNz 1
# endif
# ifndef MI_ParseSegmentNzNcOrScheme2
#  define MI_ParseSegmentNzNcOrScheme2 MI_DEFAULT
# endif
# ifndef MP_ParseSegmentNzNcOrScheme2
#  define MP_ParseSegmentNzNcOrScheme2 1
# endif
# ifndef MI_ParseUriReference
#  define MI_ParseUriReference MI_DEFAULT
# endif
# ifndef MP_ParseUriReference
#  define MP_ParseUriReference 1
# endif
# ifndef MI_ParseUriTail
#  define MI_ParseUriTail MI_DEFAULT
# endif
# ifndef MP_ParseUriTail
#  define MP_ParseUriTail 1
# endif
# ifndef MI_ParseUriTailTwo
#  define MI_ParseUriTailTwo MI_DEFAULT
# endif
# ifndef MP_ParseUriTailTwo
#  define MP_ParseUriTailTwo 1
# endif
# ifndef MI_ParseZeroMoreSlashSegs
#  define MI_ParseZeroMoreSlashSegs MI_DEFAULT
# endif
# ifndef MP_ParseZeroMoreSlashSegs
#  define MP_ParseZeroMoreSlashSegs 1
# endif
/* the placeholder for empty ranges is an object of its own (UriCommon.c is not part of these translation units, so the
 * extern pointer would otherwise be an arbitrary value that may alias the input) */
# define P_MARKS_REQUIRES __CPROVER_requires(URI_FUNC(SafeToPointTo) != NULL && !__CPROVER_same_object(URI_FUNC(SafeToPointTo), g_in))
#else
# define P_MARKS_ENSURES(M, MI)
# define P_MARKS_ENSURES_BOOL(M)
# define P_MARKS_REQUIRES
#endif
/* per-function interface clause, MI_DEFAULT unless defined above */
#define P_MI_(Name) MI_##Name

/* rule functions taking the memory manager */
#define P_RULE4_NAMED(FuncName, Id, M, MI) \
static const URI_CHAR *FuncName(URI_TYPE(ParserState) *state, const URI_CHAR *first, const URI_CHAR *afterLast, UriMemoryManager *memory) \
	P_REQUIRES_COMMON __CPROVER_requires(P_MEMORY(memory)) P_LOG_REQUIRES \
	__CPROVER_assigns(state->errorCode, state->errorPos, *(state->uri), g_pm_mallocs, g_pm_frees P_LOG_ASSIGNS) \
	P_ENSURES_COMMON P_LOG_ENSURES(Id) P_MARKS_ENSURES(M, MI) ;
#define P_RULE4(Name, Id) P_RULE4_NAMED(URI_FUNC(Name), Id, M_##Name, MI_##Name)
/* rule functions that cannot fail and do not take the memory manager: result never NULL */
#define P_RULE3_NAMED(FuncName, Id, M, MI) \
static const URI_CHAR *FuncName(URI_TYPE(ParserState) *state, const URI_CHAR *first, const URI_CHAR *afterLast) \
	P_REQUIRES_COMMON P_LOG_REQUIRES __CPROVER_assigns(*(state->uri) P_LOG_ASSIGNS) \
	__CPROVER_ensures(P_POS(first, __CPROVER_return_value, afterLast)) \
	__CPROVER_ensures(P_INV(state, __CPROVER_return_value)) P_LOG_ENSURES(Id) P_MARKS_ENSURES(M, MI) ;
#define P_RULE3(Name, Id) P_RULE3_NAMED(URI_FUNC(Name), Id, M_##Name, MI_##Name)

#ifdef P_LOG
/* ---- dispatch contract of the one function selected by the generated header dispatch_current.h: the interface clauses
 * verbatim, plus "for every lookahead the calls, arguments, result and error position are those of the LL(1) table".
 * An out-of-memory exit of a helper (uriStopMalloc) is permitted anywhere: fault handling is C14's subject. ---- */
# define D_OFF(p) (P_OFF(p) / sizeof(URI_CHAR))
# define D_F0 D_OFF(first)
# define D_END D_OFF(afterLast)
# define D_CH(o) (g_in[(o)])
# define T0_ __CPROVER_old(g_tr_n)
# define D_RET_IS(pos) (__CPROVER_return_value != NULL && D_OFF(__CPROVER_return_value) == (pos))
# define D_RET_NULL (__CPROVER_return_value == NULL)
# define D_FAILS_AT(p, t) (__CPROVER_return_value == NULL && state->errorCode == URI_ERROR_SYNTAX && state->errorPos != NULL \
	&& D_OFF(state->errorPos) == (p) && g_tr_n == T0_ + (t))
# define P_CALLNAME2(x) URI_FUNC(x)
# define P_CALLNAME(x) P_CALLNAME2(x)
# define P_TWINNAME3(x) URI_FUNC(x##__rec)
# define P_TWINNAME2(x) P_TWINNAME3(x)
# define P_TWINNAME(x) P_TWINNAME2(x)
# if P_DISPATCH_HAS_MEMORY
#  define P_DISPATCH_DECL \
static const URI_CHAR *P_CALLNAME(P_DISPATCH_FUNC)(URI_TYPE(ParserState) *state, const URI_CHAR *first, const URI_CHAR *afterLast, UriMemoryManager *memory) \
	P_REQUIRES_COMMON __CPROVER_requires(P_MEMORY(memory)) __CPROVER_requires(g_tr_n == 0) P_DISPATCH_EXTRA_REQ \
	__CPROVER_assigns(state->errorCode, state->errorPos, *(state->uri), g_pm_mallocs, g_pm_frees, g_tr_n, \
		__CPROVER_object_whole(g_tr_rule), __CPROVER_object_whole(g_tr_first), __CPROVER_object_whole(g_tr_ret)) \
	P_ENSURES_COMMON \
	__CPROVER_ensures((__CPROVER_return_value == NULL && state->errorCode == URI_ERROR_MALLOC) || (P_DISPATCH_FORMULA)) \
	P_MARKS_ENSURES(P_DISPATCH_M, (P_DISPATCH_MI) && (P_DISPATCH_MP)) ; \
	P_RULE4_NAMED(P_TWINNAME(P_DISPATCH_FUNC), P_DISPATCH_ID, P_DISPATCH_M, P_DISPATCH_MI)
# else
#  define P_DISPATCH_DECL \
static const URI_CHAR *P_CALLNAME(P_DISPATCH_FUNC)(URI_TYPE(ParserState) *state, const URI_CHAR *first, const URI_CHAR *afterLast) \
	P_REQUIRES_COMMON __CPROVER_requires(g_tr_n == 0) \
	__CPROVER_assigns(*(state->uri), g_tr_n, __CPROVER_object_whole(g_tr_rule), __CPROVER_object_whole(g_tr_first), __CPROVER_object_whole(g_tr_ret)) \
	__CPROVER_ensures(P_POS(first, __CPROVER_return_value, afterLast)) \
	__CPROVER_ensures(P_INV(state, __CPROVER_return_value)) \
	__CPROVER_ensures(P_DISPATCH_FORMULA) P_MARKS_ENSURES(P_DISPATCH_M, (P_DISPATCH_MI) && (P_DISPATCH_MP)) ; \
	P_RULE3_NAMED(P_TWINNAME(P_DISPATCH_FUNC), P_DISPATCH_ID, P_DISPATCH_M, P_DISPATCH_MI)
# endif
#endif

/* "First character has already been checked before entering this rule" (comment in the code): caller's obligation */
#define P_RULE4X(Name, Id, Extra) \
static const URI_CHAR *URI_FUNC(Name)(URI_TYPE(ParserState) *state, const URI_CHAR *first, const URI_CHAR *afterLast, UriMemoryManager *memory) \
	P_REQUIRES_COMMON __CPROVER_requires(P_MEMORY(memory)) __CPROVER_requires(Extra) P_LOG_REQUIRES \
	__CPROVER_assigns(state->errorCode, state->errorPos, *(state->uri), g_pm_mallocs, g_pm_frees P_LOG_ASSIGNS) \
	P_ENSURES_COMMON P_LOG_ENSURES(Id) P_MARKS_ENSURES(M_##Name, MI_##Name) ;
#ifndef P_DECL_ParseAuthority
# define P_DECL_ParseAuthority P_RULE4(ParseAuthority, P_IDOF(ParseAuthority))
#endif
P_DECL_ParseAuthority
#ifndef P_DECL_ParseHierPart
# define P_DECL_ParseHierPart P_RULE4(ParseHierPart, P_IDOF(ParseHierPart))
#endif
P_DECL_ParseHierPart
#ifndef P_DECL_ParseIpFutLoop
# define P_DECL_ParseIpFutLoop P_RULE4(ParseIpFutLoop, P_IDOF(ParseIpFutLoop))
#endif
P_DECL_ParseIpFutLoop
#ifndef P_DECL_ParseIpFutStopGo
# define P_DECL_ParseIpFutStopGo P_RULE4(ParseIpFutStopGo, P_IDOF(ParseIpFutStopGo))
#endif
P_DECL_ParseIpFutStopGo
#ifndef P_DECL_ParseIpFuture
# define P_DECL_ParseIpFuture P_RULE4X(ParseIpFuture, P_IDOF(ParseIpFuture), (P_OFF(first) >= P_OFF(afterLast) || *first == _UT('v') || *first == _UT('V')))
#endif
P_DECL_ParseIpFuture
#ifndef P_DECL_ParseIpLit2
# define P_DECL_ParseIpLit2 P_RULE4(ParseIpLit2, P_IDOF(ParseIpLit2))
#endif
P_DECL_ParseIpLit2
#ifndef P_DECL_ParseMustBeSegmentNzNc
# define P_DECL_ParseMustBeSegmentNzNc P_RULE4(ParseMustBeSegmentNzNc, P_IDOF(ParseMustBeSegmentNzNc))
#endif
P_DECL_ParseMustBeSegmentNzNc
#ifndef P_DECL_ParseOwnHost
# define P_DECL_ParseOwnHost P_RULE4(ParseOwnHost, P_IDOF(ParseOwnHost))
#endif
P_DECL_ParseOwnHost
#ifndef P_DECL_ParseOwnHost2
# define P_DECL_ParseOwnHost2 P_RULE4(ParseOwnHost2, P_IDOF(ParseOwnHost2))
#endif
P_DECL_ParseOwnHost2
#ifndef P_DECL_ParseOwnHostUserInfo
# define P_DECL_ParseOwnHostUserInfo P_RULE4(ParseOwnHostUserInfo, P_IDOF(ParseOwnHostUserInfo))
#endif
P_DECL_ParseOwnHostUserInfo
#ifndef P_DECL_ParseOwnHostUserInfoNz
# define P_DECL_ParseOwnHostUserInfoNz P_RULE4(ParseOwnHostUserInfoNz, P_IDOF(ParseOwnHostUserInfoNz))
#endif
P_DECL_ParseOwnHostUserInfoNz
#ifndef P_DECL_ParseOwnPortUserInfo
# define P_DECL_ParseOwnPortUserInfo P_RULE4(ParseOwnPortUserInfo, P_IDOF(ParseOwnPortUserInfo))
#endif
P_DECL_ParseOwnPortUserInfo
#ifndef P_DECL_ParseOwnUserInfo
# define P_DECL_ParseOwnUserInfo P_RULE4(ParseOwnUserInfo, P_IDOF(ParseOwnUserInfo))
#endif
P_DECL_ParseOwnUserInfo
#ifndef P_DECL_ParsePartHelperTwo
# define P_DECL_ParsePartHelperTwo P_RULE4(ParsePartHelperTwo, P_IDOF(ParsePartHelperTwo))
#endif
P_DECL_ParsePartHelperTwo
#ifndef P_DECL_ParsePathAbsEmpty
# define P_DECL_ParsePathAbsEmpty P_RULE4(ParsePathAbsEmpty, P_IDOF(ParsePathAbsEmpty))
#endif
P_DECL_ParsePathAbsEmpty
#ifndef P_DECL_ParsePathAbsNoLeadSlash
# define P_DECL_ParsePathAbsNoLeadSlash P_RULE4(ParsePathAbsNoLeadSlash, P_IDOF(ParsePathAbsNoLeadSlash))
#endif
P_DECL_ParsePathAbsNoLeadSlash
#ifndef P_DECL_ParsePathRootless
# define P_DECL_ParsePathRootless P_RULE4(ParsePathRootless, P_IDOF(ParsePathRootless))
#endif
P_DECL_ParsePathRootless
#ifndef P_DECL_ParsePchar
# define P_DECL_ParsePchar P_RULE4(ParsePchar, P_IDOF(ParsePchar))
#endif
P_DECL_ParsePchar
#ifndef P_DECL_ParsePctEncoded
# define P_DECL_ParsePctEncoded P_RULE4X(ParsePctEncoded, P_IDOF(ParsePctEncoded), (P_OFF(first) >= P_OFF(afterLast) || *first == _UT('%')))
#endif
P_DECL_ParsePctEncoded
#ifndef P_DECL_ParsePctSubUnres
# define P_DECL_ParsePctSubUnres P_RULE4(ParsePctSubUnres, P_IDOF(ParsePctSubUnres))
#endif
P_DECL_ParsePctSubUnres
#ifndef P_DECL_ParseQueryFrag
# define P_DECL_ParseQueryFrag P_RULE4(ParseQueryFrag, P_IDOF(ParseQueryFrag))
#endif
P_DECL_ParseQueryFrag
#ifndef P_DECL_ParseSegment
# define P_DECL_ParseSegment P_RULE4(ParseSegment, P_IDOF(ParseSegment))
#endif
P_DECL_ParseSegment
#ifndef P_DECL_ParseSegmentNz
# define P_DECL_ParseSegmentNz P_RULE4(ParseSegmentNz, P_IDOF(ParseSegmentNz))
#endif
P_DECL_ParseSegmentNz
#ifndef P_DECL_ParseSegmentNzNcOrScheme2
# define P_DECL_ParseSegmentNzNcOrScheme2 P_RULE4(ParseSegmentNzNcOrScheme2, P_IDOF(ParseSegmentNzNcOrScheme2))
#endif
P_DECL_ParseSegmentNzNcOrScheme2
#ifndef P_DECL_ParseUriReference
# define P_DECL_ParseUriReference P_RULE4(ParseUriReference, P_IDOF(ParseUriReference))
#endif
P_DECL_ParseUriReference
#ifndef P_DECL_ParseUriTail
# define P_DECL_ParseUriTail P_RULE4(ParseUriTail, P_IDOF(ParseUriTail))
#endif
P_DECL_ParseUriTail
#ifndef P_DECL_ParseUriTailTwo
# define P_DECL_ParseUriTailTwo P_RULE4(ParseUriTailTwo, P_IDOF(ParseUriTailTwo))
#endif
P_DECL_ParseUriTailTwo
#ifndef P_DECL_ParseZeroMoreSlashSegs
# define P_DECL_ParseZeroMoreSlashSegs P_RULE4(ParseZeroMoreSlashSegs, P_IDOF(ParseZeroMoreSlashSegs))
#endif
P_DECL_ParseZeroMoreSlashSegs
#ifndef P_DECL_ParseIPv6address2
# define P_DECL_ParseIPv6address2 P_RULE4(ParseIPv6address2, P_IDOF(ParseIPv6address2))
#endif
P_DECL_ParseIPv6address2
#ifndef P_DECL_ParseAuthorityTwo
# define P_DECL_ParseAuthorityTwo P_RULE3(ParseAuthorityTwo, P_IDOF(ParseAuthorityTwo))
#endif
P_DECL_ParseAuthorityTwo
#ifndef P_DECL_ParseHexZero
# define P_DECL_ParseHexZero P_RULE3(ParseHexZero, P_IDOF(ParseHexZero))
#endif
P_DECL_ParseHexZero
#ifndef P_DECL_ParsePort
# define P_DECL_ParsePort P_RULE3(ParsePort, P_IDOF(ParsePort))
#endif
P_DECL_ParsePort

/* ---- helpers ---- */
/* error exits: release everything, record the error */
static void URI_FUNC(StopSyntax)(URI_TYPE(ParserState) *state, const URI_CHAR *errorPos, UriMemoryManager *memory)
__CPROVER_requires(__CPROVER_is_fresh(state, sizeof(*state)) && __CPROVER_is_fresh(state->uri, sizeof(*(state->uri))))
__CPROVER_requires(P_MEMORY(memory))
__CPROVER_requires(errorPos != NULL && __CPROVER_same_object(errorPos, g_in) && P_OFF(errorPos) <= g_inlen * sizeof(URI_CHAR) && P_ALIGNED(errorPos))
__CPROVER_assigns(state->errorCode, state->errorPos, *(state->uri), g_pm_frees)
__CPROVER_ensures(state->errorCode == URI_ERROR_SYNTAX && state->errorPos == errorPos && P_CLEAN(state))
;
static void URI_FUNC(StopMalloc)(URI_TYPE(ParserState) *state, UriMemoryManager *memory)
__CPROVER_requires(__CPROVER_is_fresh(state, sizeof(*state)) && __CPROVER_is_fresh(state->uri, sizeof(*(state->uri))))
__CPROVER_requires(P_MEMORY(memory))
__CPROVER_assigns(state->errorCode, state->errorPos, *(state->uri), g_pm_frees)
__CPROVER_ensures(state->errorCode == URI_ERROR_MALLOC && state->errorPos == NULL && P_CLEAN(state))
;
/* segment list helpers: the list nodes are abstracted (no rule function reads or writes a node); what the rule functions
 * may rely on is only which Uri fields change.  The node-level behaviour is verified in route H (C02/C13 obligations). */
static UriBool URI_FUNC(PushPathSegment)(URI_TYPE(ParserState) *state, const URI_CHAR *first, const URI_CHAR *afterLast, UriMemoryManager *memory)
__CPROVER_requires(__CPROVER_is_fresh(state, sizeof(*state)) && __CPROVER_is_fresh(state->uri, sizeof(*(state->uri))))
__CPROVER_requires(P_MEMORY(memory))
__CPROVER_assigns(state->uri->pathHead, state->uri->pathTail, g_pm_mallocs)
__CPROVER_ensures(__CPROVER_return_value == URI_TRUE || __CPROVER_return_value == URI_FALSE)
;
void URI_FUNC(FixEmptyTrailSegment)(URI_TYPE(Uri) *uri, UriMemoryManager *memory)
__CPROVER_requires(__CPROVER_is_fresh(uri, sizeof(*uri)) && P_MEMORY(memory))
__CPROVER_assigns(uri->pathHead, uri->pathTail, g_pm_frees)
/* either nothing changes or the (lone, empty) segment is dropped; an empty list stays empty */
__CPROVER_ensures((uri->pathHead == __CPROVER_old(uri->pathHead) && uri->pathTail == __CPROVER_old(uri->pathTail))
	|| (uri->pathHead == NULL && uri->pathTail == NULL))
;
/* the three host-end helpers and the scheme-or-segment helper: Uri fields only; marks stay within [g_in, first] */
#ifdef P_MARKS   /* "host instead of user info": the provisional user-info start is withdrawn (asserted on the real helpers in OnExitHost.*.H) */
# define P_ONEXIT_UF_EXTRA __CPROVER_ensures(__CPROVER_return_value == URI_TRUE ==> state->uri->userInfo.first == NULL)
#else
# define P_ONEXIT_UF_EXTRA
#endif
#define P_ONEXIT(Name, Extra) \
static UriBool URI_FUNC(Name)(URI_TYPE(ParserState) *state, const URI_CHAR *first, UriMemoryManager *memory) \
	__CPROVER_requires(__CPROVER_is_fresh(state, sizeof(*state)) && __CPROVER_is_fresh(state->uri, sizeof(*(state->uri)))) \
	__CPROVER_requires(P_MEMORY(memory)) \
	__CPROVER_requires(__CPROVER_same_object(first, g_in) && P_ALIGNED(first) && P_OFF(first) <= g_inlen * sizeof(URI_CHAR) && P_INV(state, first)) \
	__CPROVER_assigns(*(state->uri), g_pm_mallocs, g_pm_frees) \
	__CPROVER_ensures(__CPROVER_return_value == URI_TRUE || __CPROVER_return_value == URI_FALSE) \
	__CPROVER_ensures(P_INV(state, first)) P_MARKS_ENSURES_BOOL(M_##Name) Extra ;
#ifdef P_MARKS   /* the host ends where the helper is called (asserted on the real helper in OnExitHost.*.H) */
# define P_ONEXIT_HA_EXTRA __CPROVER_ensures(state->uri->hostText.afterLast == first)
#else
# define P_ONEXIT_HA_EXTRA
#endif
P_ONEXIT(OnExitOwnHost2, P_ONEXIT_HA_EXTRA) P_ONEXIT(OnExitOwnHostUserInfo, P_ONEXIT_UF_EXTRA) P_ONEXIT(OnExitOwnPortUserInfo, P_ONEXIT_UF_EXTRA)
#ifdef P_MARKS   /* "not a scheme": the provisional scheme start is withdrawn (asserted on the real helper in OnExitSegment.*.H) */
# define P_ONEXIT_SEG_EXTRA __CPROVER_ensures(__CPROVER_return_value == URI_TRUE ==> state->uri->scheme.first == NULL)
#else
# define P_ONEXIT_SEG_EXTRA
#endif
static UriBool URI_FUNC(OnExitSegmentNzNcOrScheme2)(URI_TYPE(ParserState) *state, const URI_CHAR *first, UriMemoryManager *memory)
	__CPROVER_requires(__CPROVER_is_fresh(state, sizeof(*state)) && __CPROVER_is_fresh(state->uri, sizeof(*(state->uri))))
	__CPROVER_requires(P_MEMORY(memory))
	__CPROVER_requires(__CPROVER_same_object(first, g_in) && P_ALIGNED(first) && P_OFF(first) <= g_inlen * sizeof(URI_CHAR) && P_INV(state, first))
	__CPROVER_assigns(*(state->uri), g_pm_mallocs, g_pm_frees)
	__CPROVER_ensures(__CPROVER_return_value == URI_TRUE || __CPROVER_return_value == URI_FALSE)
	__CPROVER_ensures(P_INV(state, first)) P_MARKS_ENSURES_BOOL(M_OnExitSegmentNzNcOrScheme2) P_ONEXIT_SEG_EXTRA ;
static void URI_FUNC(OnExitPartHelperTwo)(URI_TYPE(ParserState) *state)
__CPROVER_requires(__CPROVER_is_fresh(state, sizeof(*state)) && __CPROVER_is_fresh(state->uri, sizeof(*(state->uri))))
__CPROVER_assigns(state->uri->absolutePath)
__CPROVER_ensures(state->uri->absolutePath == URI_TRUE)
;

/* ---- entry points (loop-free given the contracts above) ---- */
int URI_FUNC(FreeUriMembersMm)(URI_TYPE(Uri) *uri, UriMemoryManager *memory)
__CPROVER_requires(__CPROVER_is_fresh(uri, sizeof(*uri)) && P_MEMORY(memory))
__CPROVER_requires(memory->realloc != NULL && memory->reallocarray != NULL)
__CPROVER_assigns(*uri, g_pm_frees)
__CPROVER_ensures(__CPROVER_return_value == URI_SUCCESS && uri->pathHead == NULL && uri->pathTail == NULL
	&& uri->hostData.ip4 == NULL && uri->hostData.ip6 == NULL)
;
void URI_FUNC(ResetUri)(URI_TYPE(Uri) *uri)
__CPROVER_requires(uri == NULL || __CPROVER_is_fresh(uri, sizeof(*uri)))
__CPROVER_assigns(uri != NULL: *uri)
__CPROVER_ensures(uri == NULL || (uri->scheme.first == NULL && uri->userInfo.first == NULL && uri->hostText.first == NULL
	&& uri->hostText.afterLast == NULL && uri->portText.first == NULL && uri->portText.afterLast == NULL && uri->query.first == NULL
	&& uri->fragment.first == NULL && uri->pathHead == NULL && uri->pathTail == NULL && uri->hostData.ip4 == NULL
	&& uri->hostData.ip6 == NULL && uri->hostData.ipFuture.first == NULL && uri->absolutePath == URI_FALSE && uri->owner == URI_FALSE))
;
/* input of the entry points: g_first/g_afterLast delimit the range handed in (positions in the object g_in) */
#define P_ARGRANGE(first, afterLast) (__CPROVER_same_object((first), g_in) && __CPROVER_same_object((afterLast), g_in) \
	&& P_ALIGNED(first) && P_ALIGNED(afterLast) && P_OFF(first) <= P_OFF(afterLast) && P_OFF(afterLast) <= g_inlen * sizeof(URI_CHAR))
#define P_ERRPOS_IN(pos, first, afterLast) ((pos) != NULL && __CPROVER_same_object((pos), g_in) && P_ALIGNED(pos) \
	&& P_OFF(first) <= P_OFF(pos) && P_OFF(pos) <= P_OFF(afterLast))

/* (state != NULL and uri != NULL are required here: the NULL-argument exits are loop-free one-liners decided by the
 * route-H obligation ParseEntryNull; keeping them out of these contracts avoids guarded dereferences of possibly-NULL
 * pointers in every clause, which CBMC's symbolic execution handles very slowly) */
static int URI_FUNC(ParseUriExMm)(URI_TYPE(ParserState) *state, const URI_CHAR *first, const URI_CHAR *afterLast, UriMemoryManager *memory)
__CPROVER_requires(__CPROVER_is_fresh(state, sizeof(*state)) && __CPROVER_is_fresh(state->uri, sizeof(*(state->uri))))
__CPROVER_requires(g_inlen < (1UL << 40) && P_OFF(g_in) == 0 && __CPROVER_r_ok(g_in, g_inlen * sizeof(URI_CHAR)))
__CPROVER_requires(first == NULL || afterLast == NULL || P_ARGRANGE(first, afterLast))
__CPROVER_requires(P_MEMORY(memory) && memory->realloc != NULL && memory->reallocarray != NULL)
__CPROVER_assigns(*state, *(state->uri), g_pm_mallocs, g_pm_frees)
/* the uri pointer of the state is unchanged (stated first and as a one-point range, so that a caller who only knows this
 * contract can still dereference state->uri: CBMC cannot follow a pointer that is merely assumed equal to another) */
__CPROVER_ensures(__CPROVER_pointer_in_range_dfcc(__CPROVER_old(state->uri), state->uri, __CPROVER_old(state->uri)))
__CPROVER_ensures((first == NULL || afterLast == NULL) ==> __CPROVER_return_value == URI_ERROR_NULL)
__CPROVER_ensures((first != NULL && afterLast != NULL) ==>
	(__CPROVER_return_value == URI_SUCCESS || __CPROVER_return_value == URI_ERROR_SYNTAX || __CPROVER_return_value == URI_ERROR_MALLOC))
/* every rejected text: the syntax error code with a non-NULL position inside [first, afterLast]; nothing left allocated */
__CPROVER_ensures((first != NULL && afterLast != NULL && __CPROVER_return_value == URI_ERROR_SYNTAX) ==>
	state->errorCode == URI_ERROR_SYNTAX && P_ERRPOS_IN(state->errorPos, first, afterLast) && P_CLEAN(state))
__CPROVER_ensures((first != NULL && afterLast != NULL && __CPROVER_return_value == URI_ERROR_MALLOC) ==>
	state->errorCode == URI_ERROR_MALLOC && state->errorPos == NULL && P_CLEAN(state))
__CPROVER_ensures((first != NULL && afterLast != NULL && __CPROVER_return_value == URI_SUCCESS) ==> P_INV(state, afterLast))
;
/* ghost: where *errorPos pointed before the call */
const URI_CHAR *g_errpos_before;
int URI_FUNC(ParseSingleUriExMm)(URI_TYPE(Uri) *uri, const URI_CHAR *first, const URI_CHAR *afterLast, const URI_CHAR **errorPos, UriMemoryManager *memory)
__CPROVER_requires(__CPROVER_is_fresh(uri, sizeof(*uri)))
__CPROVER_requires(errorPos == NULL || (__CPROVER_is_fresh(errorPos, sizeof(*errorPos)) && *errorPos == g_errpos_before))
__CPROVER_requires(g_inlen < (1UL << 40) && P_OFF(g_in) == 0 && __CPROVER_r_ok(g_in, g_inlen * sizeof(URI_CHAR)))
__CPROVER_requires(first == NULL || afterLast == NULL || P_ARGRANGE(first, afterLast))
__CPROVER_requires(P_MEMORY(memory) && memory->realloc != NULL && memory->reallocarray != NULL)
__CPROVER_assigns(*uri, g_pm_mallocs, g_pm_frees; errorPos != NULL: *errorPos)
__CPROVER_ensures((first == NULL || afterLast == NULL) ==> __CPROVER_return_value == URI_ERROR_NULL)
__CPROVER_ensures((first != NULL && afterLast != NULL) ==>
	(__CPROVER_return_value == URI_SUCCESS || __CPROVER_return_value == URI_ERROR_SYNTAX || __CPROVER_return_value == URI_ERROR_MALLOC))
__CPROVER_ensures((first != NULL && afterLast != NULL && __CPROVER_return_value == URI_ERROR_SYNTAX && errorPos != NULL) ==>
	P_ERRPOS_IN(*errorPos, first, afterLast))
/* the position is only set on failure */
__CPROVER_ensures((first != NULL && afterLast != NULL && __CPROVER_return_value == URI_SUCCESS && errorPos != NULL) ==>
	*errorPos == g_errpos_before)
/* on failure the output may be handed to the free function: nothing is left in it */
__CPROVER_ensures((first != NULL && afterLast != NULL && __CPROVER_return_value != URI_SUCCESS) ==>
	(uri->pathHead == NULL && uri->pathTail == NULL && uri->hostData.ip4 == NULL && uri->hostData.ip6 == NULL))
;
#endif
