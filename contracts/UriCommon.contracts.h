/* Function contracts for src/UriCommon.c, attached to the real definitions by prior declaration (DESIGN P1). */
#ifndef URICOMMON_CONTRACTS_H
#define URICOMMON_CONTRACTS_H
#include "vtypes.h"
#include "libc_contracts.h"

/* ghost lengths of the two ranges (chosen by the harness, never assigned by the code) */
size_t g_lenA, g_lenB;
#define VSIGN(x) ((x) > 0 ? 1 : ((x) < 0 ? -1 : 0))

/* uriCompareRange: total order on ranges; NULL range / NULL text is smaller than any present one and equal to itself;
 * shorter is smaller; equal lengths: exactly one string comparison over exactly that length decides. */
int URI_FUNC(CompareRange)(const URI_TYPE(TextRange) *a, const URI_TYPE(TextRange) *b)
__CPROVER_requires(a == NULL || __CPROVER_is_fresh(a, sizeof(*a)))
__CPROVER_requires(b == NULL || __CPROVER_is_fresh(b, sizeof(*b)))
__CPROVER_requires(g_lenA < (1UL << 30) && g_lenB < (1UL << 30))
__CPROVER_requires(a == NULL || a->first == NULL
	|| (__CPROVER_is_fresh(a->first, VSZ(g_lenA) + 1) && a->afterLast == a->first + g_lenA))
__CPROVER_requires(b == NULL || b->first == NULL
	|| (__CPROVER_is_fresh(b->first, VSZ(g_lenB) + 1) && b->afterLast == b->first + g_lenB))
__CPROVER_assigns(g_cmp_calls, g_cmp_a, g_cmp_b, g_cmp_n, g_cmp_ret)
__CPROVER_ensures(__CPROVER_return_value == -1 || __CPROVER_return_value == 0 || __CPROVER_return_value == 1)
__CPROVER_ensures((a == NULL || b == NULL) ==>
	__CPROVER_return_value == (a != NULL) - (b != NULL) && g_cmp_calls == __CPROVER_old(g_cmp_calls))
__CPROVER_ensures((a != NULL && b != NULL && (a->first == NULL || b->first == NULL)) ==>
	__CPROVER_return_value == (a->first != NULL) - (b->first != NULL) && g_cmp_calls == __CPROVER_old(g_cmp_calls))
__CPROVER_ensures((a != NULL && b != NULL && a->first != NULL && b->first != NULL && g_lenA != g_lenB) ==>
	__CPROVER_return_value == (g_lenA > g_lenB ? 1 : -1) && g_cmp_calls == __CPROVER_old(g_cmp_calls))
__CPROVER_ensures((a != NULL && b != NULL && a->first != NULL && b->first != NULL && g_lenA == g_lenB) ==>
	g_cmp_calls == __CPROVER_old(g_cmp_calls) + 1 && g_cmp_a == a->first && g_cmp_b == b->first && g_cmp_n == g_lenA
	&& __CPROVER_return_value == VSIGN(g_cmp_ret))
;
#endif
