/* C16, bounded part: content of escaping/unescaping on short strings held in fixed-size arrays (route H, real loops unwound):
 *   h_escape:    uriEscapeEx output == spec_escape (charset, upper-case triplets, '+', break normalization), both end modes
 *   h_unescape:  uriUnescapeInPlaceEx result == spec_unescape (well-formed triplets of either case decoded, malformed '%'
 *                untouched, '+', the four break modes), returned pointer is the new terminator
 *   h_roundtrip: unescape(escape(s)) == s, resp. s with every line break as CR LF under break normalization */
#ifndef VLC
# define VLC 3
#endif
#define SE_L VLC
#include "vall.h"
#include "spec_escape.h"

static void mk_in(URI_CHAR *in, const URI_CHAR *raw, int n) {
	int i; for (i = 0; i < VLC; i++) in[i] = (i < n) ? raw[i] : 0; in[VLC] = 0;
}
#define SE_ISHEX(c) (((c) >= _UT('0') && (c) <= _UT('9')) || ((c) >= _UT('a') && (c) <= _UT('f')) || ((c) >= _UT('A') && (c) <= _UT('F')))
#ifdef VW
# define IN_DOMAIN(c) ((c) > 0 && (c) <= 255)
#else
# define IN_DOMAIN(c) ((c) != 0)
#endif

void h_escape(void) {
	URI_CHAR in[VLC + 1], out[6 * VLC + 1], want[SE_OUT]; URI_CHAR *r; int i, wn, ok = 1;
	ND_ARR(URI_CHAR, raw, VLC); ND(unsigned char, n); ND(unsigned char, s2p); ND(unsigned char, nb); ND(unsigned char, explicitEnd);
	__CPROVER_assume(n <= VLC && s2p <= 1 && nb <= 1 && explicitEnd <= 1);
	for (i = 0; i < VLC; i++) __CPROVER_assume(!(i < n) || IN_DOMAIN(raw[i]));
	mk_in(in, raw, n);
	VCOVER(n == VLC && nb && raw[0] == 13 && raw[1] == 10, "CR LF at the start, break normalization");
	VCOVER_END;
	r = URI_FUNC(EscapeEx)(in, explicitEnd ? in + n : NULL, out, s2p ? URI_TRUE : URI_FALSE, nb ? URI_TRUE : URI_FALSE);
	wn = spec_escape(want, in, n, s2p, nb);
	VPOST("C16", r == out + wn && out[wn] == 0, "EscapeEx: output length as specified, terminator returned");
	for (i = 0; i < 6 * VLC; i++) if (i < wn && out[i] != want[i]) ok = 0;
	VPOST("C16", ok, "EscapeEx: output equals the specified escaping (unreserved kept, '+' or %20, upper-case %XX, line breaks)");
}

void h_unescape(void) {
	URI_CHAR buf[VLC + 1], orig[VLC + 1], want[2 * VLC + 2]; const URI_CHAR *r; int i, wn, ok = 1;
	ND_ARR(URI_CHAR, raw, VLC); ND(unsigned char, n); ND(unsigned char, p2s); ND(unsigned char, mode);
	__CPROVER_assume(n <= VLC && p2s <= 1 && mode <= 3);
	for (i = 0; i < VLC; i++) __CPROVER_assume(!(i < n) || IN_DOMAIN(raw[i]));
#ifdef V_TOKENS
	/* token-structured slice: the text is a sequence of at most V_TOKENS tokens, each a single character or a well-formed
	 * %XX triplet (so "%0D+%0A" is three tokens); reaches what the plain obligation's length bound cannot */
	{ int t = 0;
	  for (i = 0; i < VLC; i++) if (i < n && raw[i] == _UT('%')) {
		t++;
		__CPROVER_assume(i + 2 < n && SE_ISHEX(raw[(i + 1 < VLC) ? i + 1 : 0]) && SE_ISHEX(raw[(i + 2 < VLC) ? i + 2 : 0]));
	  }
	  __CPROVER_assume((int)n - 2 * t <= V_TOKENS); }
#endif
	mk_in(buf, raw, n); mk_in(orig, raw, n);
#ifdef V_TOKENS
	VCOVER(n == 7 && raw[0] == _UT('%') && raw[3] == _UT('+') && raw[4] == _UT('%') && mode == 0 && p2s == 1, "triplet, plus, triplet");
#endif
	VCOVER(n >= 3 && raw[0] == _UT('%') && raw[1] == _UT('4') && raw[2] == _UT('a'), "a lower-case triplet");
	VCOVER_END;
	r = URI_FUNC(UnescapeInPlaceEx)(buf, p2s ? URI_TRUE : URI_FALSE,
		mode == 0 ? URI_BR_TO_LF : mode == 1 ? URI_BR_TO_CRLF : mode == 2 ? URI_BR_TO_CR : URI_BR_DONT_TOUCH);
	wn = spec_unescape(want, orig, n, p2s, mode);
	VPOST("C16", wn <= n, "specified result is never longer than the input");
	VPOST("C16", r == buf + wn && buf[wn] == 0, "UnescapeInPlaceEx: result length as specified, new terminator returned");
	for (i = 0; i < VLC; i++) if (i < wn && buf[i] != want[i]) ok = 0;
	VPOST("C16", ok, "UnescapeInPlaceEx: well-formed triplets of either hex case decoded, malformed '%' untouched, '+' and line breaks as requested");
}

void h_roundtrip(void) {
	URI_CHAR in[VLC + 1], mid[6 * VLC + 1], want[SE_OUT]; URI_CHAR *e; const URI_CHAR *r; int i, wn, ok = 1;
	ND_ARR(URI_CHAR, raw, VLC); ND(unsigned char, n); ND(unsigned char, s2p); ND(unsigned char, nb);
	__CPROVER_assume(n <= VLC && s2p <= 1 && nb <= 1);
	for (i = 0; i < VLC; i++) __CPROVER_assume(!(i < n) || IN_DOMAIN(raw[i]));
	mk_in(in, raw, n);
	VCOVER(n == VLC && raw[0] == _UT(' ') && raw[1] == _UT('+'), "space and plus");
	VCOVER_END;
	e = URI_FUNC(EscapeEx)(in, in + n, mid, s2p ? URI_TRUE : URI_FALSE, nb ? URI_TRUE : URI_FALSE);
	VPOST("C16", e != NULL && e - mid <= (nb ? 6 : 3) * n && *e == 0, "EscapeEx: bounded, terminated");
	r = URI_FUNC(UnescapeInPlaceEx)(mid, s2p ? URI_TRUE : URI_FALSE, URI_BR_DONT_TOUCH);
	if (nb) wn = spec_crlf(want, in, n); else { wn = n; for (i = 0; i < VLC; i++) want[i] = in[i]; }
	VPOST("C16", r == mid + wn && mid[wn] == 0, "unescape(escape(s)): length of the original (with every line break as CR LF under break normalization)");
	for (i = 0; i < 2 * VLC; i++) if (i < wn && mid[i] != want[i]) ok = 0;
	VPOST("C16", ok, "unescape(escape(s)) restores the original characters (line breaks as CR LF under break normalization)");
}
