/* vall.h - the whole library in one translation unit (every src/Uri*.c, each with its A or W pass selected by vh.h),
 * so that static functions are reachable from harnesses and the native replay links without the shared library. */
#ifndef VALL_H
#define VALL_H
#include "vh.h"
#include "vlibc.h"
#include "UriCommon.c"
#include "UriCompare.c"
#include "UriEscape.c"
#include "UriFile.c"
#include "UriIp4Base.c"
#include "UriIp4.c"
#include "UriMemory.c"
#include "UriNormalizeBase.c"
#include "UriNormalize.c"
#include "UriParseBase.c"
#include "UriParse.c"
#include "UriQuery.c"
#include "UriRecompose.c"
#include "UriResolve.c"
#include "UriShorten.c"
#include "vmemcpy.h"
#endif
