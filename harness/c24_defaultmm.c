/* DefaultManager.*.H - C13: "the C library allocator being used only when none is supplied" - the branch
 * memory == NULL => &defaultMemoryManager => uriDefaultMalloc/Calloc/Free => malloc/calloc/free, executed on CBMC's
 * allocator model (route H).  The run has --memory-leak-check on: every block still allocated at the end is a failure.
 *  (a) the forwarders: malloc hands back NULL or a block of exactly the requested size, calloc a zeroed one, free releases
 *      exactly the pointer it is given (a block freed through uriDefaultFree is not reported as a leak; a wrong pointer is an
 *      invalid-free failure);
 *  (b) one operation end to end with memory == NULL: uriMakeOwnerMm copies the texts of a small borrowed URI into C-library
 *      blocks, uriFreeUriMembersMm(uri, NULL) releases every one of them (no leak at the end). */
#include "vall.h"
#define NT 4
void harness(void) {
	ND(size_t, n); ND(size_t, m); ND(size_t, gk);
	unsigned char *p, *q;
	__CPROVER_assume(n >= 1 && n <= 64 && m >= 1 && m <= 8);
	p = defaultMemoryManager.malloc(&defaultMemoryManager, n);
	if (p != NULL) {
		VPOST("C13", __CPROVER_DYNAMIC_OBJECT(p) && __CPROVER_POINTER_OFFSET(p) == 0 && __CPROVER_OBJECT_SIZE(p) == n, "default malloc: a heap block of exactly the requested size");
		defaultMemoryManager.free(&defaultMemoryManager, p);
	}
	q = defaultMemoryManager.calloc(&defaultMemoryManager, m, n);
	if (q != NULL) {
		VPOST("C13", __CPROVER_OBJECT_SIZE(q) == m * n && (gk >= m * n || q[gk] == 0), "default calloc: a zeroed heap block of nmemb * size bytes");
		defaultMemoryManager.free(&defaultMemoryManager, q);
	}
	{	/* (b) */
		URI_TYPE(Uri) u; URI_CHAR text[NT]; int r; ND(unsigned char, qlen);
		__CPROVER_assume(qlen >= 1 && qlen <= NT);
		memset(&u, 0, sizeof(u));
		u.scheme.first = text; u.scheme.afterLast = text + 1; u.query.first = text; u.query.afterLast = text + qlen; u.owner = URI_FALSE;
		r = URI_FUNC(MakeOwnerMm)(&u, NULL);
		VPOST("C13,C14", r == URI_SUCCESS || r == URI_ERROR_MALLOC, "uriMakeOwnerMm with the default manager: success or the out-of-memory code");
		if (r == URI_SUCCESS) VPOST("C13,C12", u.owner == URI_TRUE && __CPROVER_DYNAMIC_OBJECT(u.scheme.first) && __CPROVER_DYNAMIC_OBJECT(u.query.first)
			&& __CPROVER_OBJECT_SIZE(u.query.first) == qlen * sizeof(URI_CHAR), "with memory == NULL the copies are C-library heap blocks of exactly the text size");
		URI_FUNC(FreeUriMembersMm)(&u, NULL);
		VPOST("C13", u.scheme.first == NULL && u.query.first == NULL, "uriFreeUriMembersMm(uri, NULL) releases the copies through the C library (leak check at the end of the run)");
	}
}
