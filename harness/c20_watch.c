/* C20 / C12: read-only inputs are never written, not even transiently (route H with ghost observers).
 * Every expression statement of the staged library is followed by VWATCH() (vlib/stage.py inject_watch); while a call runs,
 * VWATCH() compares ONE nondeterministically chosen place of the call's shared read-only inputs with its entry value:
 * the URI structure, one path node, one character of the text, one address byte; one list node or one character of a
 * query list; one character of a string.  Because the place is nondeterministic, "never differs at the chosen place" is
 * "no part of the input ever differs at a statement boundary" - what a concurrent reader of the shared input relies on. */
#include "vall.h"
#include "vuri.h"
#include "vframe.h"

#ifndef V_WATCH
# error "c20_watch.c needs -DV_WATCH (obligations with watch=...)"
#endif

/* the k-th pointer field of a URI structure (19 of them), the k-th int field (2), the k-th pointer field of a node (4) */
static const void *const *vw_uri_ptr(const URI_TYPE(Uri) *u, int k) {
	switch (k) {
	case 0: return (const void *const *)&u->scheme.first; case 1: return (const void *const *)&u->scheme.afterLast;
	case 2: return (const void *const *)&u->userInfo.first; case 3: return (const void *const *)&u->userInfo.afterLast;
	case 4: return (const void *const *)&u->hostText.first; case 5: return (const void *const *)&u->hostText.afterLast;
	case 6: return (const void *const *)&u->hostData.ip4; case 7: return (const void *const *)&u->hostData.ip6;
	case 8: return (const void *const *)&u->hostData.ipFuture.first; case 9: return (const void *const *)&u->hostData.ipFuture.afterLast;
	case 10: return (const void *const *)&u->portText.first; case 11: return (const void *const *)&u->portText.afterLast;
	case 12: return (const void *const *)&u->pathHead; case 13: return (const void *const *)&u->pathTail;
	case 14: return (const void *const *)&u->query.first; case 15: return (const void *const *)&u->query.afterLast;
	case 16: return (const void *const *)&u->fragment.first; case 17: return (const void *const *)&u->fragment.afterLast;
	default: return (const void *const *)&u->reserved;
	}
}
static const void *const *vw_node_ptr(const URI_TYPE(PathSegment) *n, int k) {
	switch (k) {
	case 0: return (const void *const *)&n->text.first; case 1: return (const void *const *)&n->text.afterLast;
	case 2: return (const void *const *)&n->next; default: return (const void *const *)&n->reserved;
	}
}
/* arm the observer on ONE place of the URI chosen by the ghosts (sel: 0 pointer field of the structure, 1 int field,
 * 2 pointer field of node number `node`, 3 character `cell` of the text, 4 address byte `cell`) */
static void vw_arm_uri(const URI_TYPE(Uri) *u, const URI_CHAR *pool, int sel, int field, int node, int cell) {
	const URI_TYPE(PathSegment) *p = u->pathHead, *hit = NULL; int i;
	g_wpp = NULL; g_wpi = NULL; g_wpc = NULL; g_wpu = NULL;
	for (i = 0; i < VM; i++) if (p != NULL) { if (i == node) hit = p; p = p->next; }
	if (sel == 0) { g_wpp = vw_uri_ptr(u, field); g_wp0 = *g_wpp; }
	else if (sel == 1) { g_wpi = (field & 1) ? &u->absolutePath : &u->owner; g_wi0 = *g_wpi; }
	else if (sel == 2) { if (hit != NULL) { g_wpp = vw_node_ptr(hit, field & 3); g_wp0 = *g_wpp; } }
	else if (sel == 3) { g_wpc = &pool[cell]; g_wc0 = *g_wpc; }
	else {
		if (u->hostData.ip4 != NULL && cell < 4) g_wpu = &u->hostData.ip4->data[cell];
		if (u->hostData.ip6 != NULL && cell < 16) g_wpu = &u->hostData.ip6->data[cell];
		if (g_wpu != NULL) g_wu0 = *g_wpu;
	}
}
#define VW_GHOSTS ND(unsigned char, wwhich); ND(unsigned char, wsel); ND(unsigned char, wfield); ND(unsigned char, wnode); ND(unsigned char, wcell); \
	__CPROVER_assume(wwhich <= 1 && wsel <= 4 && wfield <= 18 && wnode < (VM > 0 ? VM : 1) && wcell < 16 && (wsel != 3 || wcell < VT)); \
	g_watch_bad = 0; g_watch_on = 0; g_wpp = NULL; g_wpi = NULL; g_wpc = NULL; g_wpu = NULL
#define VW_VERDICT(fn) do { g_watch_on = 0; \
	VNOTE("watch: bad=%d at staged line %d\n", g_watch_bad, g_watch_line); \
	VPOST("C20,C12", !g_watch_bad && !VW_DIFFERS(), fn ": the shared read-only inputs keep their entry values at every statement boundary of the call (no write, not even one that is undone)"); } while (0)

/* uriAddBaseUriExMm: reference and base are shared */
void h_w_addbase(void) {
	URI_TYPE(Uri) ur, ub, dest;
	ND(unsigned long long, failmask); ND(unsigned char, compat);
	VU_INPUT(r); VU_INPUT(b);
	VW_GHOSTS;
	__CPROVER_assume(vu_shape_ok(&r, r_pool) && vu_shape_ok(&b, b_pool) && vu_legal(&r, r_pool) && vu_legal(&b, b_pool) && compat <= 1);
	VMM_RESET(0);
	vu_build(&ur, &r, r_pool, 0); vu_build(&ub, &b, b_pool, 0);
	g_failmask = failmask;
	if (wwhich) vw_arm_uri(&ub, b_pool, wsel, wfield, wnode, wcell); else vw_arm_uri(&ur, r_pool, wsel, wfield, wnode, wcell);
	VCOVER(r.nseg == VM && b.nseg == VM && b.scheme.len > 0 && r.scheme.len < 0 && r.hostkind == VU_HK_NONE && wsel == 2 && wwhich == 1, "merge of two VM-segment paths, a node of the base watched");
	VCOVER_END;
	g_watch_on = 1;
	(void)URI_FUNC(AddBaseUriExMm)(&dest, &ur, &ub, compat ? URI_RESOLVE_IDENTICAL_SCHEME_COMPAT : URI_RESOLVE_STRICTLY, &vmm);
	VW_VERDICT("uriAddBaseUriExMm");
}

/* uriRemoveBaseUriMm: source and base are shared */
void h_w_removebase(void) {
	URI_TYPE(Uri) us, ub, dest;
	ND(unsigned long long, failmask); ND(unsigned char, domainRoot);
	VU_INPUT(s); VU_INPUT(b);
	VW_GHOSTS;
	__CPROVER_assume(vu_shape_ok(&s, s_pool) && vu_shape_ok(&b, b_pool) && vu_legal(&s, s_pool) && vu_legal(&b, b_pool) && domainRoot <= 1);
	VMM_RESET(0);
	vu_build(&us, &s, s_pool, 0); vu_build(&ub, &b, b_pool, 0);
	g_failmask = failmask;
	if (wwhich) vw_arm_uri(&ub, b_pool, wsel, wfield, wnode, wcell); else vw_arm_uri(&us, s_pool, wsel, wfield, wnode, wcell);
	VCOVER(s.nseg == VM && b.nseg == VM && s.scheme.len > 0 && b.scheme.len > 0 && wsel == 0, "two VM-segment paths, a structure field watched");
	VCOVER_END;
	g_watch_on = 1;
	(void)URI_FUNC(RemoveBaseUriMm)(&dest, &us, &ub, domainRoot ? URI_TRUE : URI_FALSE, &vmm);
	VW_VERDICT("uriRemoveBaseUriMm");
}

/* uriEqualsUri, uriToStringCharsRequired, uriToString: the URIs are shared */
void h_w_readers(void) {
	URI_TYPE(Uri) ua, ub; URI_CHAR out[64]; int req = 0, wr = 0;
	ND(int, maxChars);
	VU_INPUT(a); VU_INPUT(b);
	VW_GHOSTS;
	__CPROVER_assume(vu_shape_ok(&a, a_pool) && vu_shape_ok(&b, b_pool) && vu_legal(&a, a_pool) && vu_legal(&b, b_pool) && maxChars >= 0 && maxChars <= 64);
	VMM_RESET(0);
	vu_build(&ua, &a, a_pool, 0); vu_build(&ub, &b, b_pool, 0);
	if (wwhich) vw_arm_uri(&ub, b_pool, wsel, wfield, wnode, wcell); else vw_arm_uri(&ua, a_pool, wsel, wfield, wnode, wcell);
	VCOVER(a.nseg == VM && b.nseg == VM && a.hostkind == VU_HK_IP6 && wsel == 4 && wwhich == 0, "IPv6 host, an address byte watched");
	VCOVER_END;
	g_watch_on = 1;
	(void)URI_FUNC(EqualsUri)(&ua, &ub);
	(void)URI_FUNC(ToStringCharsRequired)(&ua, &req);
	(void)URI_FUNC(ToString)(out, &ua, maxChars, &wr);
	VW_VERDICT("uriEqualsUri / uriToStringCharsRequired / uriToString");
}

/* uriNormalizeSyntaxMaskRequiredEx works on a clone of the structure: the URI is shared */
void h_w_normmask(void) {
	URI_TYPE(Uri) ua; unsigned int mask = 0;
	VU_INPUT(a);
	VW_GHOSTS;
	__CPROVER_assume(vu_shape_ok(&a, a_pool) && vu_legal(&a, a_pool) && wwhich == 0);
	VMM_RESET(0);
	vu_build(&ua, &a, a_pool, 0);
	vw_arm_uri(&ua, a_pool, wsel, wfield, wnode, wcell);
	VCOVER(a.nseg == VM && a.hostkind == VU_HK_REG && wsel == 3, "reg-name host, a character watched");
	VCOVER_END;
	g_watch_on = 1;
	(void)URI_FUNC(NormalizeSyntaxMaskRequiredEx)(&ua, &mask);
	VW_VERDICT("uriNormalizeSyntaxMaskRequiredEx");
}

/* uriComposeQueryCharsRequiredEx / uriComposeQueryEx: the list (nodes and strings) is shared */
#ifndef VI
# define VI 2
#endif
#ifndef VS
# define VS 1
#endif
void h_w_compose(void) {
	URI_TYPE(QueryList) items[VI]; URI_CHAR key[VI][VS + 1], val[VI][VS + 1]; URI_CHAR out[VI * (12 * VS + 2) + 2]; int required = 0, written = 0, i, j;
	ND_ARR(URI_CHAR, kbuf, VI * VS); ND_ARR(URI_CHAR, vbuf, VI * VS); ND_ARR(unsigned char, klen, VI); ND_ARR(signed char, vlen, VI);
	ND(unsigned char, nitems); ND(unsigned char, spaceToPlus); ND(unsigned char, normalizeBreaks); ND(unsigned char, wi); ND(unsigned char, wj); ND(unsigned char, wwhat);
	__CPROVER_assume(nitems >= 1 && nitems <= VI && spaceToPlus <= 1 && normalizeBreaks <= 1 && wi < VI && wj <= 2 && wwhat <= 2);
	for (i = 0; i < VI; i++) {
		__CPROVER_assume(klen[i] <= VS && vlen[i] >= -1 && vlen[i] <= VS);
		for (j = 0; j < VS; j++) {
			key[i][j] = (j < klen[i]) ? kbuf[i * VS + j] : 0; val[i][j] = (j < vlen[i]) ? vbuf[i * VS + j] : 0;
			__CPROVER_assume(!(j < klen[i]) || key[i][j] != 0); __CPROVER_assume(!(j < vlen[i]) || val[i][j] != 0);
#ifdef VW
			__CPROVER_assume(key[i][j] >= 0 && key[i][j] <= 255 && val[i][j] >= 0 && val[i][j] <= 255);
#endif
		}
		key[i][VS] = 0; val[i][VS] = 0;
		items[i].key = key[i]; items[i].value = (vlen[i] < 0) ? NULL : val[i]; items[i].next = (i + 1 < nitems) ? &items[i + 1] : NULL;
	}
	g_watch_bad = 0; g_watch_on = 0; g_wpp = NULL; g_wpi = NULL; g_wpc = NULL; g_wpu = NULL;
	if (wwhat == 0) { g_wpp = (wj == 0) ? (const void *const *)&items[wi].key : (wj == 1) ? (const void *const *)&items[wi].value : (const void *const *)&items[wi].next; g_wp0 = *g_wpp; }
	else { g_wpc = (wwhat == 1) ? &key[wi][wj <= VS ? wj : 0] : &val[wi][wj <= VS ? wj : 0]; g_wc0 = *g_wpc; }
	VCOVER(nitems == VI && klen[0] == VS && vlen[VI - 1] == VS && wwhat == 2, "VI items, a value character watched");
	VCOVER_END;
	g_watch_on = 1;
	(void)URI_FUNC(ComposeQueryCharsRequiredEx)(items, &required, spaceToPlus, normalizeBreaks);
	(void)URI_FUNC(ComposeQueryEx)(out, items, (int)(sizeof(out) / sizeof(out[0])), &written, spaceToPlus, normalizeBreaks);
	VW_VERDICT("uriComposeQueryCharsRequiredEx / uriComposeQueryEx");
}
