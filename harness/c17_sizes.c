/* ComposeSizes.*.H - uriComposeQueryEngine through uriComposeQueryCharsRequiredEx / uriComposeQueryEx with SYMBOLIC
 * string lengths (uriEscapeEx and strlen replaced by their contracts, stubs/compose_callees.c); bounded in the number of
 * items only.  C17: the chars-required figure is the worst-case size and is sufficient; nothing is written beyond
 * maxChars; written == text length + 1; size computations that would exceed INT_MAX are refused rather than wrapped. */
#include "vall.h"
#include "../stubs/compose_log.h"
#ifndef VI
# define VI 3
#endif
#ifndef VD
# define VD 24
#endif
#define LENMAX (((size_t)1) << 40)

void harness(void) {
	URI_TYPE(QueryList) items[VI];
	/* the strings are represented by their start addresses only (one cell each): their lengths live in the strlen table,
	 * their content is never read by the engine - it only forms `s + strlen(s)` for uriEscapeEx (this obligation runs
	 * without --pointer-overflow-check for that reason; every dereference is still checked) */
	URI_CHAR kobj[VI][1], vobj[VI][1];
	ND_ARR(size_t, klen, VI); ND_ARR(size_t, vlen, VI); ND_ARR(size_t, kesc, VI); ND_ARR(size_t, vesc, VI);
	ND_ARR(unsigned char, vnull, VI); ND_ARR(unsigned char, knull, VI);
	ND(unsigned char, nitems); ND(unsigned char, s2p); ND(unsigned char, nb); ND(int, maxChars); ND(unsigned char, mode);
	int i, r, required = -7, written = -7, worst, toolong = 0;
	unsigned long long S = 0, W = 0;       /* mathematical sums (no wrap below 2^64: at most 2*VI*6*2^40 + ...) */
	URI_CHAR *dest = NULL;
	__CPROVER_assume(nitems >= 1 && nitems <= VI && s2p <= 1 && nb <= 1 && mode <= 1);
	worst = nb ? 6 : 3;
	g_cs_n = 0; g_cs_s2p = s2p; g_cs_nb = nb; g_cs_escapes = 0; g_cs_bad = 0; g_cs_dest = NULL; g_cs_destchars = 0;
	for (i = 0; i < VI; i++) {
		URI_CHAR *k = NULL, *v = NULL;
		__CPROVER_assume(klen[i] < LENMAX && vlen[i] < LENMAX && knull[i] <= 1 && vnull[i] <= 1);
		__CPROVER_assume(kesc[i] <= (size_t)worst * klen[i] && vesc[i] <= (size_t)worst * vlen[i]);
		if (!knull[i]) { k = &kobj[i][0]; g_cs_ptr[g_cs_n] = k; g_cs_len[g_cs_n] = klen[i]; g_cs_esc[g_cs_n] = kesc[i]; g_cs_n++; }
		else { klen[i] = 0; kesc[i] = 0; }
		if (!vnull[i]) { v = &vobj[i][0]; g_cs_ptr[g_cs_n] = v; g_cs_len[g_cs_n] = vlen[i]; g_cs_esc[g_cs_n] = vesc[i]; g_cs_n++; }
		else { vlen[i] = 0; vesc[i] = 0; }
		items[i].key = k; items[i].value = v; items[i].next = (i + 1 < nitems) ? &items[i + 1] : NULL;
		if (i < nitems) {
			if (klen[i] >= (size_t)INT_MAX / worst || vlen[i] >= (size_t)INT_MAX / worst) toolong = 1;
			S += (i > 0 ? 1 : 0) + (unsigned long long)worst * klen[i] + (vnull[i] ? 0 : 1 + (unsigned long long)worst * vlen[i]);
			W += (i > 0 ? 1 : 0) + kesc[i] + (vnull[i] ? 0 : 1 + vesc[i]);
		}
	}
	VCOVER(nitems == VI && !vnull[0] && !vnull[VI - 1] && klen[VI - 1] > 1000, "VI items with values and a long key");
	VCOVER(!toolong && S > (unsigned long long)INT_MAX, "every string below the per-string guard, total above INT_MAX");
	VCOVER(!toolong && S < 100 && mode == 1 && maxChars == (int)S + 1, "capacity == required + 1");
	VCOVER(toolong, "a string at or above the per-string guard");
	VCOVER_END;
	if (mode == 0) {
		r = URI_FUNC(ComposeQueryCharsRequiredEx)(items, &required, s2p ? URI_TRUE : URI_FALSE, nb ? URI_TRUE : URI_FALSE);
		VPOST("C17", g_cs_escapes == 0 && !g_cs_bad, "measuring escapes nothing");
		if (toolong) VPOST("C17", r == URI_ERROR_OUTPUT_TOO_LARGE, "a key or value whose worst-case size reaches INT_MAX is refused");
		else if (S > (unsigned long long)INT_MAX) VPOST("C17", r != URI_SUCCESS, "a total size beyond INT_MAX is refused rather than wrapped");
		else VPOST("C17,C19", r == URI_SUCCESS && required >= 0 && (unsigned long long)required == S,
			"chars required == sum over the items of [&] + worst*keylen + [= + worst*valuelen] (worst = 3, 6 with break normalization)");
	} else {
		/* writing mode: a destination block of EXACTLY maxChars characters, 1 <= maxChars <= VD (block sizes are constants
		 * per branch: a block of symbolic size did not finish in 900 s); string lengths stay symbolic */
		__CPROVER_assume(maxChars >= 1 && maxChars <= VD);
		dest = vmalloc_exact((size_t)maxChars * sizeof(URI_CHAR), VD * sizeof(URI_CHAR));
		g_cs_dest = dest; g_cs_destchars = (size_t)maxChars;
		r = URI_FUNC(ComposeQueryEx)(dest, items, maxChars, &written, s2p ? URI_TRUE : URI_FALSE, nb ? URI_TRUE : URI_FALSE);
		VPOST("C17", !g_cs_bad, "every uriEscapeEx call of the engine meets uriEscapeEx's precondition (room for the worst case inside maxChars)");
		VPOST("C17", r == URI_SUCCESS || r == URI_ERROR_OUTPUT_TOO_LARGE, "composing succeeds or reports the too-large code");
		if (!toolong && S < (unsigned long long)INT_MAX && (unsigned long long)maxChars >= S + 1)
			VPOST("C17", r == URI_SUCCESS, "a capacity of chars-required + 1 is always sufficient");
		if (toolong) VPOST("C17", r == URI_ERROR_OUTPUT_TOO_LARGE, "a key or value whose worst-case size reaches INT_MAX is refused (writing mode)");
		if (r == URI_SUCCESS) {
			VPOST("C17,C19", written >= 1 && (unsigned long long)written == W + 1, "characters written == length of the composed text + 1");
			VPOST("C17", dest[written - 1] == _UT('\0'), "the composed text is terminated at written - 1");
		}
	}
}
