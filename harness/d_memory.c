/* route-D harnesses for src/UriMemory.c (C15): arguments nondeterministic, shaped by the contracts' requires */
#include <stddef.h>
#include "UriMemory.contracts.h"
#include "UriMemory.c"

size_t nondet_size(void);
void *nondet_ptr(void);
/* the contract functions' addresses must be taken somewhere in the TU (DESIGN P3) */
void *(*const keep1)(UriMemoryManager *, size_t) = be_malloc_contract;
void (*const keep2)(UriMemoryManager *, void *) = be_free_contract;
void *(*const keep3)(UriMemoryManager *, size_t) = mm_malloc_contract;
void *(*const keep4)(UriMemoryManager *, void *, size_t) = mm_realloc_contract;

void h_DecorateMalloc(void) { UriMemoryManager *m; size_t s; uriDecorateMalloc(m, s); }
void h_DecorateFree(void) { UriMemoryManager *m; void *p; g_sz = nondet_size(); uriDecorateFree(m, p); }
void h_EmulateCalloc(void) { UriMemoryManager *m; size_t n, s; g_k = nondet_size(); uriEmulateCalloc(m, n, s); }
void h_EmulateReallocarray(void) { UriMemoryManager *m; void *p; size_t n, s; uriEmulateReallocarray(m, p, n, s); }
void h_IsComplete(void) { const UriMemoryManager *m; uriMemoryManagerIsComplete(m); }
void (*const keep5)(UriMemoryManager *, void *) = mm_free_contract;
_Bool nondet_bool(void);
void h_DecorateRealloc(void) {
	UriMemoryManager *m; void *p = NULL; size_t s;
	g_sz = nondet_size(); g_k = nondet_size();
	__CPROVER_assume(g_sz <= SIZE_MAX - HDRSZ);
	if (nondet_bool()) {                 /* a live block satisfying hdr(p, g_sz), built by real assignments */
		g_base = malloc(HDRSZ + g_sz);
		__CPROVER_assume(g_base != NULL);
		*(size_t *)g_base = g_sz;
		p = (char *)g_base + HDRSZ;
	}
	uriDecorateRealloc(m, p, s);
}
void h_Complete(void) { UriMemoryManager *m, *b; uriCompleteMemoryManager(m, b); }
