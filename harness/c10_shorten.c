/* uriRemoveBaseUriMm with all its real callees inlined (route H):
 *   C10  the produced reference resolves against the base back to the source (spec_resolve on views), scheme/authority
 *        omission rules, domain-root mode, differing schemes, error codes
 *   C07  result well formed and reparse-safe
 *   C12  source and base unchanged;  C13/C14 ledger and fault injection */
#include "vall.h"
#include "vuri.h"
#include "spec_path.h"
#include "spec_normalize.h"
#include "vframe.h"

#ifndef KF_C10_AUTHORITY_USERINFO_PORT
# define KF_C10_AUTHORITY_USERINFO_PORT 0
#endif
#ifndef KF_C10_EMPTY_SOURCE_PATH
# define KF_C10_EMPTY_SOURCE_PATH 0
#endif
#ifndef KF_C10_DOMAINROOT_ROOTLESS
# define KF_C10_DOMAINROOT_ROOTLESS 0
#endif
#ifndef KF_C10_HOSTLESS_ROOTEDNESS
# define KF_C10_HOSTLESS_ROOTEDNESS 0
#endif
#ifndef KF_C10_EMPTY_REF_KEEPS_BASE_QUERY
# define KF_C10_EMPTY_REF_KEEPS_BASE_QUERY 0
#endif
#ifndef KF_C10_BASE_INNER_DOTS
# define KF_C10_BASE_INNER_DOTS 0
#endif
/* a base path of three or more segments with a dot segment in front of its last segment */
static int base_inner_dots(const struct sv_path *p) {
	int i, r = 0;
	for (i = 0; i < SV_MAXSEG; i++) if (i + 1 < p->n && (SV_IS_DOT(&p->seg[i]) || SV_IS_DOTDOT(&p->seg[i]))) r = 1;
	return r && p->n >= 3;
}

/* paths equal, an empty path under an authority being the same as "/" */
static int path_eq_auth(const struct sv_path *a, const struct sv_path *b, int hasAuth) {
	struct sv_path x = *a, y = *b;
	sv_canon(&x); sv_canon(&y);
	if (hasAuth && x.n == 0) x.rooted = 1;
	if (hasAuth && y.n == 0) y.rooted = 1;
	return sv_path_eq(&x, &y);
}
static int host_eq(const struct sv_view *a, const struct sv_view *b) {
	struct sv_view x = *a, y = *b;
	x.userInfo.len = -1; y.userInfo.len = -1; x.port.len = -1; y.port.len = -1;
	return sv_auth_eq(&x, &y);
}

void harness(void) {
	URI_TYPE(Uri) us, ub, dest;
	struct vf_snap sns, snb;
	struct sv_view vs, vb, vd, vt;
	struct sv_path sdots;
	int ret, live0, ok, sameScheme, sameAuth, hostOnlySame, canOmitScheme;
	ND(unsigned long long, failmask);
	ND(unsigned char, domainRoot);
	ND(unsigned char, gk);
	VU_INPUT(s);
	VU_INPUT(b);
	__CPROVER_assume(vu_shape_ok(&s, s_pool) && vu_shape_ok(&b, b_pool));
	__CPROVER_assume(vu_legal(&s, s_pool) && vu_legal(&b, b_pool));
	__CPROVER_assume(domainRoot <= 1 && gk < VT);
#ifdef V_NOFAIL
	__CPROVER_assume(failmask == 0);
#endif
	sv_of_shape(&vs, &s, s_pool); sv_of_shape(&vb, &b, b_pool);
	__CPROVER_assume(sv_reparse_safe(&vs) && sv_reparse_safe(&vb));
	VMM_RESET(0);
	vu_build(&us, &s, s_pool, 0);
	vu_build(&ub, &b, b_pool, 0);
	live0 = g_live;
	vf_take(&sns, &us, s_pool, gk); vf_take(&snb, &ub, b_pool, gk);
	g_failmask = failmask;
	VCOVER(s.nseg == VM && b.nseg == VM && s.scheme.len > 0 && b.scheme.len > 0 && s.hostkind == VU_HK_REG && b.hostkind == VU_HK_REG, "two absolute URIs with VM segments and reg-name hosts");

	VCOVER_END;
	ret = URI_FUNC(RemoveBaseUriMm)(&dest, &us, &ub, domainRoot ? URI_TRUE : URI_FALSE, &vmm);

	VBOUND(g_allocs <= VMM_MAXREQ, "at most 64 allocation requests per call");
	VPOST("C13", g_mm_misuse == 0, "only malloc/calloc/free of the supplied manager are used");
	if (b.scheme.len < 0) {
		VPOST("C10", ret == URI_ERROR_REMOVEBASE_REL_BASE, "RemoveBaseUri: base without scheme => URI_ERROR_REMOVEBASE_REL_BASE");
		VPOST("C10,C13", g_allocs == 0, "RemoveBaseUri: rejected before anything is allocated");
	} else if (s.scheme.len < 0) {
		VPOST("C10", ret == URI_ERROR_REMOVEBASE_REL_SOURCE, "RemoveBaseUri: source without scheme => URI_ERROR_REMOVEBASE_REL_SOURCE");
		VPOST("C10,C13", g_allocs == 0, "RemoveBaseUri: rejected before anything is allocated");
	} else if (g_failed > 0) {
		VCOVER_POST(g_failed > 0 && g_allocs >= 3, "third allocation request refused or later");
		VPOST("C14", ret == URI_ERROR_MALLOC, "RemoveBaseUri: a refused allocation request => URI_ERROR_MALLOC");
	} else {
		VPOST("C10,C14", ret == URI_SUCCESS, "RemoveBaseUri: two absolute URIs, no allocation failure => URI_SUCCESS");
	}
	if (ret == URI_SUCCESS) {
		ok = sv_of_uri(&vd, &dest);
		VPOST("C10,C07", ok && sv_wf_uri(&dest), "RemoveBaseUri: result is well formed");
		sameScheme = sv_txt_eq(&vs.scheme, &vb.scheme);
		sameAuth = sv_auth_eq(&vs, &vb);
		hostOnlySame = host_eq(&vs, &vb);
		VCOVER_POST(sameScheme && sameAuth && vd.path.n == 2 * VM - 1, "shared scheme and authority, reference path of 2*VM-1 segments");
		/* a reference without scheme can denote S only if S's authority can be expressed: S has one, or the base has none */
		canOmitScheme = sameScheme && !(vs.hostkind == VU_HK_NONE && vb.hostkind != VU_HK_NONE);
		if (!canOmitScheme) {
			VPOST("C10", sv_txt_eq(&vd.scheme, &vs.scheme) && sv_auth_eq(&vd, &vs) && sv_path_eq(&vd.path, &vs.path)
				&& sv_txt_eq(&vd.query, &vs.query) && sv_txt_eq(&vd.fragment, &vs.fragment),
				"RemoveBaseUri: schemes differ (or no scheme-less reference can denote the source) => the reference is the source unchanged");
		} else {
			VPOST("C10", vd.scheme.len < 0, "RemoveBaseUri: shared scheme is omitted");
			VPOST_KF("C10", KF_C10_AUTHORITY_USERINFO_PORT, (hostOnlySame && !sameAuth),
				sameAuth ? (vd.hostkind == VU_HK_NONE) : sv_auth_eq(&vd, &vs),
				"RemoveBaseUri: authority omitted when user info, host and port are all shared; otherwise it is the source's",
				"C10-authority-compared-by-host-only");
			VPOST("C10", sv_txt_eq(&vd.query, &vs.query) && sv_txt_eq(&vd.fragment, &vs.fragment), "RemoveBaseUri: query and fragment are the source's");
			VPOST("C10", !(domainRoot && sameAuth) || vd.path.rooted, "RemoveBaseUri: domain-root mode => absolute path");
		}
		/* inverse of resolution */
		spec_resolve(&vt, &vd, &vb, 0);
		spec_remove_dots(&sdots, &vs.path, 0);
		{ struct sv_path tdots; spec_remove_dots(&tdots, &vt.path, 0); vt.path = tdots; }   /* both sides compared after dot-segment normalization */
		{
			int hostless = (vs.hostkind == VU_HK_NONE && vb.hostkind == VU_HK_NONE);
			int r_auth = KF_C10_AUTHORITY_USERINFO_PORT && sameScheme && hostOnlySame && !sameAuth;
			int r_query = KF_C10_EMPTY_REF_KEEPS_BASE_QUERY && sameScheme && vs.query.len < 0 && vb.query.len >= 0;
			int r_rooted = KF_C10_HOSTLESS_ROOTEDNESS && sameScheme && hostless && vs.path.rooted != vb.path.rooted;
			int r_domroot = KF_C10_DOMAINROOT_ROOTLESS && sameScheme && hostless && domainRoot && !vs.path.rooted;
			struct sv_path cs = vs.path, cb = vb.path;
			int r_emptysrc = (sv_canon(&cs), sv_canon(&cb), KF_C10_EMPTY_SOURCE_PATH && sameScheme && cs.n == 0 && cb.n > 0);
			int r_dots = KF_C10_BASE_INNER_DOTS && sameScheme && base_inner_dots(&vb.path);
			int roundtrip = sv_txt_eq(&vt.scheme, &vs.scheme) && sv_auth_eq(&vt, &vs) && path_eq_auth(&vt.path, &sdots, vs.hostkind != VU_HK_NONE)
				&& sv_txt_eq(&vt.query, &vs.query) && sv_txt_eq(&vt.fragment, &vs.fragment);
			VPOST("C10", r_auth || r_query || r_rooted || r_domroot || r_emptysrc || r_dots || roundtrip,
				"RemoveBaseUri: resolving the produced reference against the base gives back the source (after dot-segment removal, empty path under an authority == '/')");
			VKF(KF_C10_AUTHORITY_USERINFO_PORT, r_auth, roundtrip, "C10-authority-compared-by-host-only", "round trip");
			VKF(KF_C10_EMPTY_REF_KEEPS_BASE_QUERY, r_query, roundtrip, "C10-empty-reference-keeps-base-query", "round trip");
			VKF(KF_C10_HOSTLESS_ROOTEDNESS, r_rooted, roundtrip, "C10-hostless-rootedness-differs", "round trip");
			VKF(KF_C10_EMPTY_SOURCE_PATH, r_emptysrc, roundtrip, "C10-empty-source-path", "round trip");
			VKF(KF_C10_DOMAINROOT_ROOTLESS, r_domroot, roundtrip, "C10-domainroot-makes-rootless-source-absolute", "round trip");
			VKF(KF_C10_BASE_INNER_DOTS, r_dots, roundtrip, "C10-base-with-inner-dot-segments", "round trip");
		}
		VPOST("C07", sv_reparse_safe(&vd), "RemoveBaseUri: result text is read back with the same components");
		VPOST("C12", dest.owner == URI_FALSE, "RemoveBaseUri: result does not claim ownership of borrowed text");
	}
	(void)URI_FUNC(FreeUriMembersMm)(&dest, &vmm);
	if (ret == URI_SUCCESS) {
		VPOST("C13", g_live == live0, "RemoveBaseUri + FreeUriMembers: no block outstanding after the matching release");
	} else {
		VPOST("C14,C13", g_live == live0, "RemoveBaseUri failed: no block outstanding after the caller's cleanup");
	}
	VFRAME("C12,C14,C20", vf_same(&sns, &us, s_pool, gk), "RemoveBaseUri leaves the source unchanged");
	VFRAME("C12,C14,C20", vf_same(&snb, &ub, b_pool, gk), "RemoveBaseUri leaves the base unchanged");
}
