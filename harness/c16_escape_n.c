/* C16, unbounded part (route N: loop contracts injected, non-DFCC instrumentation):
 *  EscapeEx: reads only the input, writes at most 3 (6 with break normalization) characters per input character into a
 *            destination block of *exactly* 3n+1 / 6n+1 characters, returns its terminator, emits only unreserved
 *            characters, '+' (if requested) and complete upper-case %XX triplets;
 *  UnescapeInPlaceEx: write <= read <= terminator, never writes past the terminator (block of exactly n+1 characters),
 *            returns the new terminator. */
#include "vh.h"
#include <stddef.h>
size_t g_n, g_j;
#define VOFF(p) ((size_t)__CPROVER_POINTER_OFFSET(p) / sizeof(URI_CHAR))
#define VBOFF(p) ((size_t)__CPROVER_POINTER_OFFSET(p))
#define V_ISUNRESERVED(c) (((c) >= _UT('a') && (c) <= _UT('z')) || ((c) >= _UT('A') && (c) <= _UT('Z')) || ((c) >= _UT('0') && (c) <= _UT('9')) \
	|| (c) == _UT('-') || (c) == _UT('.') || (c) == _UT('_') || (c) == _UT('~'))
#define V_ISHEXUP(c) (((c) >= _UT('0') && (c) <= _UT('9')) || ((c) >= _UT('A') && (c) <= _UT('F')))
#include "vlibc.h"
#include "UriCommon.c"
#include "UriEscape.c"

#ifndef V_NMAX
# define V_NMAX 100000
#endif
size_t nondet_size(void);

void h_escape(void) {
	ND(unsigned char, spaceToPlus); ND(unsigned char, normalizeBreaks); ND(unsigned char, explicitEnd);
	URI_CHAR *in, *out, *ret;
	size_t cap;
	g_n = nondet_size(); g_j = nondet_size();
	__CPROVER_assume(g_n <= V_NMAX && g_j <= 6 * V_NMAX + 6 && spaceToPlus <= 1 && normalizeBreaks <= 1 && explicitEnd <= 1);
	in = malloc((g_n + 1) * sizeof(URI_CHAR));
	__CPROVER_assume(in != NULL);
	if (!explicitEnd) in[g_n] = 0;              /* NUL-terminated variant: some NUL at index g_n (not necessarily the first) */
	cap = (normalizeBreaks ? 6 : 3) * g_n + 1;   /* the documented worst case, exactly */
	out = malloc(cap * sizeof(URI_CHAR));
	__CPROVER_assume(out != NULL);
	VCOVER(g_n > 2 && normalizeBreaks && explicitEnd, "explicit range of more than two characters, break normalization");
	ret = URI_FUNC(EscapeEx)(in, explicitEnd ? in + g_n : NULL, out, spaceToPlus ? URI_TRUE : URI_FALSE, normalizeBreaks ? URI_TRUE : URI_FALSE);
	VPOST("C16", ret != NULL && __CPROVER_same_object(ret, out), "EscapeEx returns a pointer into the output");
	VPOST("C16", VBOFF(ret) <= (normalizeBreaks ? 6 : 3) * g_n * sizeof(URI_CHAR), "EscapeEx: output never longer than 3x (6x) the input");
	VPOST("C16", *ret == 0, "EscapeEx: the returned pointer is the terminator");
	VPOST("C16", g_j * sizeof(URI_CHAR) >= VBOFF(ret) || V_ISUNRESERVED(out[g_j]) || out[g_j] == _UT('%') || (spaceToPlus && out[g_j] == _UT('+')),
		"EscapeEx emits only unreserved characters, '%' triplets and (if requested) '+'");
	VPOST("C16", !(g_j * sizeof(URI_CHAR) < VBOFF(ret) && out[g_j] == _UT('%')) || ((g_j + 2) * sizeof(URI_CHAR) < VBOFF(ret) && V_ISHEXUP(out[g_j + 1]) && V_ISHEXUP(out[g_j + 2])),
		"EscapeEx: every '%' starts a complete triplet with upper-case hex digits");
}

void h_escape_corner(void) {
	URI_CHAR buf[4]; URI_CHAR *r;
	ND(unsigned char, s2p); ND(unsigned char, nb);
	buf[0] = _UT('x');
	r = URI_FUNC(EscapeEx)(NULL, NULL, buf, s2p, nb);
	VPOST("C16", r == buf && buf[0] == 0, "EscapeEx: NULL input => empty output, terminator returned");
	r = URI_FUNC(EscapeEx)(buf, NULL, NULL, s2p, nb);
	VPOST("C16", r == NULL, "EscapeEx: NULL output => NULL");
	r = URI_FUNC(EscapeEx)(buf, buf + 1, buf, s2p, nb);
	VPOST("C16", r == NULL, "EscapeEx: output aliasing the input => NULL");
	VCOVER(s2p == 1, "flag set");
}

void h_unescape(void) {
	ND(unsigned char, plusToSpace); ND(int, breakConversion);
	URI_CHAR *buf; const URI_CHAR *ret;
	g_n = nondet_size();
	__CPROVER_assume(g_n <= V_NMAX && plusToSpace <= 1);
	buf = malloc((g_n + 1) * sizeof(URI_CHAR));        /* exactly up to the terminator */
	__CPROVER_assume(buf != NULL);
	buf[g_n] = 0;
	VCOVER(g_n > 3 && breakConversion == URI_BR_TO_CRLF, "string longer than three characters, CRLF conversion");
	ret = URI_FUNC(UnescapeInPlaceEx)(buf, plusToSpace ? URI_TRUE : URI_FALSE, (UriBreakConversion)breakConversion);
	VPOST("C16", ret != NULL && __CPROVER_same_object(ret, buf) && VBOFF(ret) <= g_n * sizeof(URI_CHAR), "UnescapeInPlaceEx never lengthens the string; returns a pointer into it");
	VPOST("C16", *ret == 0, "UnescapeInPlaceEx: the returned pointer is the new terminator");
	VPOST("C16", URI_FUNC(UnescapeInPlaceEx)(NULL, URI_FALSE, URI_BR_DONT_TOUCH) == NULL, "UnescapeInPlaceEx: NULL => NULL");
}
