/* vh.h - common harness vocabulary.
 * The same harness text is compiled (a) by goto-cc for CBMC and (b) natively by gcc+ASan for replay (-DVREPLAY):
 * in (a) every ND()/ND_ARR() input is nondeterministic, in (b) it is read from the replay file by name. */
#ifndef VH_H
#define VH_H
#include <stddef.h>
#include <stdlib.h>
#include <string.h>
#include <limits.h>
#include <wchar.h>

#ifdef VW
# define URI_PASS_UNICODE 1
# define VCHARNAME "wchar_t"
#else
# define URI_PASS_ANSI 1
# define VCHARNAME "char"
#endif

#ifdef VREPLAY
# include <stdio.h>
extern int vr_failed;
void vr_get(const char *name, void *dst, size_t elem, size_t n);
# define ND(type, name) type name; vr_get(#name, &name, sizeof(type), 1)
# define ND_ARR(type, name, N) type name[N]; vr_get(#name, name, sizeof(type), (N))
# define __CPROVER_assume(c) do { if (!(c)) { printf("REPLAY-ASSUME-FALSE: %s\n", #c); exit(3); } } while (0)
# define __CPROVER_assert(c, msg) do { if (!(c)) { printf("REPLAY-FAIL: %s\n", msg); vr_failed = 1; } } while (0)
# define VNOTE(...) printf(__VA_ARGS__)
#else
# define ND(type, name) type nondet__##name(void); type name = nondet__##name()
# define ND_ARR(type, name, N) type name[N]
# define VNOTE(...) ((void)0)
#endif

/* a heap block of exactly n bytes, n <= max: the size is a *constant* in each branch, which keeps the object a fixed-size
 * array for CBMC (objects of symbolic size are far more expensive); any access beyond n is still a failed obligation */
static void *vmalloc_exact(size_t n, size_t max) {
	void *p = NULL; size_t k_;
#ifdef VREPLAY
	(void)max; (void)k_; p = malloc(n ? n : 1);
#else
	for (k_ = 1; k_ <= max; k_++) if (k_ == n) p = malloc(k_);
	__CPROVER_assume(p != NULL);
#endif
	return p;
}

/* ghost observer (DESIGN 10.9): the staging adds VWATCH(); after every expression statement of the library (obligations
 * with "watch"); it asks the harness whether the read-only inputs of the running call still have their entry values at
 * one nondeterministically chosen place.  A write that is undone before the call returns is caught at the first
 * statement boundary behind it - the state a concurrent reader of the shared input could see. */
#ifdef V_WATCH
# ifdef VW
typedef wchar_t vw_char;
# else
typedef char vw_char;
# endif
/* the watched place: a pointer field, an int field, a character or an address byte (exactly one is non-null) */
static const void *const *g_wpp; static const void *g_wp0;
static const int *g_wpi; static int g_wi0;
static const vw_char *g_wpc; static vw_char g_wc0;
static const unsigned char *g_wpu; static unsigned char g_wu0;
static int g_watch_on, g_watch_bad, g_watch_line;
# define VW_DIFFERS() ((g_wpp != 0 && *g_wpp != g_wp0) || (g_wpi != 0 && *g_wpi != g_wi0) || (g_wpc != 0 && *g_wpc != g_wc0) || (g_wpu != 0 && *g_wpu != g_wu0))
# define VWATCH() ((void)((g_watch_on && !g_watch_bad && VW_DIFFERS()) ? (g_watch_bad = 1, g_watch_line = __LINE__) : 0))
#endif

/* labelled assertions: the label prefix is what vlib/run.py classifies on.
 * VCOVERMODE (vacuity guard, separate run): only the input-diversity markers are compiled, as assertions that must FAIL. */
#ifdef VCOVERMODE
# define VCOVER(c, what) __CPROVER_assert(!(c), "COVER:" what)
/* markers that need the library call to have run are only compiled when the obligation asks for them (they make the
 * vacuity run as expensive as the proof); otherwise the vacuity run stops in front of the call: it then decides whether
 * the harness's assumptions admit the marked inputs, which is what guards against a contradictory precondition */
# ifdef V_COVER_POST
#  define VCOVER_POST(c, what) __CPROVER_assert(!(c), "COVER:" what)
#  define VCOVER_END ((void)0)
# else
#  define VCOVER_POST(c, what) ((void)0)
#  define VCOVER_END return
# endif
# define VPOST(tags, c, what)  ((void)0)
# define VFRAME(tags, c, what) ((void)0)
# define VPRE(tags, c, what)   ((void)0)
# define VBOUND(c, what) ((void)0)
# define VPOST_KF(tags, kfdef_on, region, c, what, kfid) ((void)0)
# define VKF(kfdef_on, region, c, kfid, what) ((void)0)
#else
# define VCOVER(c, what) ((void)0)
# define VCOVER_POST(c, what) ((void)0)
# define VCOVER_END ((void)0)
/* tags: comma-separated property ids the assertion belongs to, e.g. "C06,C07" (a check for property P counts a failed
 * assertion only if P is among its tags) */
# define VPOST(tags, c, what)  __CPROVER_assert((c), "V:post[" tags "] " what)
# define VFRAME(tags, c, what) __CPROVER_assert((c), "V:frame[" tags "] " what)
# define VPRE(tags, c, what)   __CPROVER_assert((c), "V:pre[" tags "] " what)
# define VBOUND(c, what) __CPROVER_assert((c), "V:bound " what)
/* known finding: `region` describes the inputs on which the real code is known to break P.
 * With the finding listed:   P is demanded outside the region, and a KF: assertion records whether the region still fails.
 * Without (fixed / unlisted): P is demanded everywhere. */
# define VPOST_KF(tags, kfdef_on, region, c, what, kfid) do { \
	if (kfdef_on) { \
		__CPROVER_assert((region) || (c), "V:post[" tags "] " what " [outside known-finding region " kfid "]"); \
		__CPROVER_assert(!(region) || (c), "KF:" kfid " " what); \
	} else { \
		__CPROVER_assert((c), "V:post[" tags "] " what); \
	} } while (0)
/* several findings on one postcondition: assert the postcondition outside the union of the enabled regions with
 * VPOST, then one VKF per finding records whether that finding's region still fails */
# define VKF(kfdef_on, region, c, kfid, what) do { if (kfdef_on) __CPROVER_assert(!(region) || (c), "KF:" kfid " " what); } while (0)
#endif

#endif
