/* NullArgs.*.H - NULL-argument exits of the manager-taking operations (route H; the NULL patterns are constants, so the
 * paths are loop-free and every other argument may hold arbitrary bytes, in particular an output URI full of stale
 * values - the ordinary state of an uninitialised out-parameter).
 * C13/C14: a rejected call requests nothing, releases nothing it was not handed (the manager is the ledger stub on top of
 * CBMC's free(): a stale pointer passed to it is an invalid-free failure), and the caller's ordinary cleanup of the output
 * URI afterwards releases nothing either.  C06/C10/C12/C17: the NULL code; read-only arguments are not written. */
#include "vall.h"
#include "vmm.h"
#define NTXT 8
void harness(void) {
	int which, pat;
	ND(unsigned int, gk);
	for (which = 0; which < 7; which++) for (pat = 1; pat < 8; pat++) {
		/* pat: bit0 = first pointer argument NULL, bit1 = second, bit2 = third (at least one is NULL) */
		URI_TYPE(Uri) d, b, c, b0, c0; URI_TYPE(QueryList) *qlp, *qlp0; URI_TYPE(QueryList) ql; URI_CHAR *sp, *sp0; URI_CHAR text[NTXT]; int cnt;
		ND(unsigned char, f0); ND(unsigned int, mask);
		URI_TYPE(Uri) *pd = (pat & 1) ? NULL : &d; const URI_TYPE(Uri) *pb = (pat & 2) ? NULL : &b, *pc = (pat & 4) ? NULL : &c;
		int r = -99, expect_null = 1, cleanup = 0;
		b0 = b; c0 = c; qlp0 = qlp; sp0 = sp;
		VMM_RESET(0);
		switch (which) {
		case 0: r = URI_FUNC(AddBaseUriExMm)(pd, pb, pc, (UriResolutionOptions)(f0 & 1), &vmm); cleanup = 1; break;
		case 1: r = URI_FUNC(RemoveBaseUriMm)(pd, pb, pc, (f0 & 1) ? URI_TRUE : URI_FALSE, &vmm); cleanup = 1; break;
		case 2: if (!(pat & 1)) { expect_null = 0; r = URI_ERROR_NULL; break; } r = URI_FUNC(NormalizeSyntaxExMm)(NULL, mask, &vmm); break;
		case 3: if (!(pat & 1)) { expect_null = 0; r = URI_ERROR_NULL; break; } r = URI_FUNC(MakeOwnerMm)(NULL, &vmm); break;
		case 4: if (!(pat & 1)) { expect_null = 0; r = URI_ERROR_NULL; break; } r = URI_FUNC(FreeUriMembersMm)(NULL, &vmm); break;
		case 5: r = URI_FUNC(DissectQueryMallocExMm)((pat & 1) ? NULL : &qlp, &cnt, (pat & 2) ? NULL : text, (pat & 4) ? NULL : text + NTXT, URI_TRUE, URI_BR_DONT_TOUCH, &vmm); break;
		default: if (pat & 4) { expect_null = 0; r = URI_ERROR_NULL; break; }
			r = URI_FUNC(ComposeQueryMallocExMm)((pat & 1) ? NULL : &sp, (pat & 2) ? NULL : &ql, URI_TRUE, URI_TRUE, &vmm); break;
		}
		VPOST("C13,C06,C10,C17", r == URI_ERROR_NULL, "a NULL argument is rejected with URI_ERROR_NULL");
		VPOST("C13,C14", g_allocs == 0 && g_frees == 0 && g_live == 0, "a call rejected for a NULL argument requests and releases nothing");
		if (cleanup && pd != NULL) {
			URI_FUNC(FreeUriMembersMm)(pd, &vmm);
			VPOST("C13,C14", g_frees == 0, "the caller's cleanup of the output URI after the rejected call releases nothing (no stale pointer reaches the manager)");
		}
		VFRAME("C12", gk >= sizeof(URI_TYPE(Uri)) || (((const unsigned char *)&b)[gk] == ((const unsigned char *)&b0)[gk] && ((const unsigned char *)&c)[gk] == ((const unsigned char *)&c0)[gk]),
			"read-only URI arguments keep every byte");
		if (which >= 5) VFRAME("C17", (which == 5 ? qlp == qlp0 : sp == sp0), "the output pointer is not written by a rejected call");
		(void)expect_null;
	}
}
