/* Parser helpers that own the segment list and the error exits (route H, real bodies incl. uriFreeUriMembersMm):
 * these obligations discharge, on the real code, the helper contracts that the rule-function obligations (route D) assume:
 *   StopSyntax/StopMalloc: error recorded, *everything* released (C03 "no residue"), ledger back (C13)
 *   PushPathSegment: list stays well formed, tail is the last node, empty text -> placeholder (C02)
 *   FixEmptyTrailSegment: either nothing changes or the lone empty segment is dropped (C02)
 *   FreeUriMembersMm: all members released exactly once, pointers reset, repeatable, NULL / incomplete manager (C03, C13) */
#include "vall.h"
#include "vuri.h"
#include "spec_path.h"
#include "spec_ip.h"

static int members_clean(const URI_TYPE(Uri) *u, int owned) {
	if (u->pathHead != NULL || u->pathTail != NULL || u->hostData.ip4 != NULL || u->hostData.ip6 != NULL) return 0;
	if (owned && (u->scheme.first != NULL || u->userInfo.first != NULL || u->hostText.first != NULL || u->hostData.ipFuture.first != NULL
			|| u->portText.first != NULL || u->query.first != NULL || u->fragment.first != NULL)) return 0;
	return 1;
}

void h_free(void) {
	URI_TYPE(Uri) u, before;
	int r, r2;
	ND(unsigned char, owned); ND(unsigned char, mode);   /* mode 0: supplied manager, 1: NULL uri, 2: incomplete manager */
	VU_INPUT(a);
	__CPROVER_assume(vu_shape_ok(&a, a_pool) && owned <= 1 && mode <= 2);
	VMM_RESET(0);
	vu_build(&u, &a, a_pool, owned);
	before = u;
	VCOVER(a.nseg == VM && owned == 1 && a.hostkind == VU_HK_FUT && mode == 0, "owned URI, VM segments, IPvFuture host");
	VCOVER_END;
	if (mode == 1) {
		r = URI_FUNC(FreeUriMembersMm)(NULL, &vmm);
		VPOST("C13,C03", r == URI_ERROR_NULL && g_frees == 0, "FreeUriMembersMm: NULL uri => URI_ERROR_NULL, nothing released");
		return;
	}
	if (mode == 2) {
		UriMemoryManager bad = vmm; ND(unsigned char, which);
		__CPROVER_assume(which < 5);
		if (which == 0) bad.malloc = NULL; else if (which == 1) bad.calloc = NULL; else if (which == 2) bad.realloc = NULL;
		else if (which == 3) bad.reallocarray = NULL; else bad.free = NULL;
		r = URI_FUNC(FreeUriMembersMm)(&u, &bad);
		VPOST("C13", r == URI_ERROR_MEMORY_MANAGER_INCOMPLETE && g_frees == 0 && u.pathHead == before.pathHead && u.scheme.first == before.scheme.first,
			"FreeUriMembersMm: incomplete manager => dedicated error code, nothing touched");
		return;
	}
	r = URI_FUNC(FreeUriMembersMm)(&u, &vmm);
	VPOST("C13,C03", r == URI_SUCCESS && g_live == 0, "FreeUriMembersMm releases every block of the URI (ledger back to zero)");
	VPOST("C13,C03", members_clean(&u, owned), "FreeUriMembersMm resets every released member to NULL");
	VPOST("C12,C13", owned || (u.scheme.first == before.scheme.first && u.query.first == before.query.first && u.fragment.first == before.fragment.first
		&& u.userInfo.first == before.userInfo.first && u.portText.first == before.portText.first), "FreeUriMembersMm leaves borrowed text ranges alone");
	{ int frees1 = g_frees;
	  r2 = URI_FUNC(FreeUriMembersMm)(&u, &vmm);
	  VPOST("C13,C03", r2 == URI_SUCCESS && g_frees == frees1 && g_live == 0, "FreeUriMembersMm a second time releases nothing and does no harm"); }
}

/* a state whose uri has k well-formed borrowed segments */
void h_push(void) {
	URI_TYPE(Uri) u; URI_TYPE(ParserState) st; struct sv_view v0, v1;
	UriBool ok; int live0, n0;
	ND(unsigned long long, failmask); ND(unsigned char, off); ND(unsigned char, len);
	VU_INPUT(a);
	__CPROVER_assume(vu_shape_ok(&a, a_pool) && a.nseg < VM && off + len <= VT && len <= VL);
	VMM_RESET(0);
	vu_build(&u, &a, a_pool, 0);
	st.uri = &u; st.errorCode = 0; st.errorPos = NULL; st.reserved = NULL;
	sv_of_uri(&v0, &u); n0 = v0.path.n; live0 = g_live;
	g_failmask = failmask;
	VCOVER(a.nseg == VM - 1 && len == 0, "appending an empty segment to a list of VM-1");
	VCOVER_END;
	ok = URI_FUNC(PushPathSegment)(&st, a_pool + off, a_pool + off + len, &vmm);
	if (g_failed > 0) {
		VPOST("C14,C02", ok == URI_FALSE && g_live == live0, "PushPathSegment: refused allocation => FALSE, nothing allocated");
		VPOST("C14,C02", sv_of_uri(&v1, &u) && sv_path_eq(&v1.path, &v0.path) && sv_wf_uri(&u), "PushPathSegment: refused allocation => list unchanged");
	} else {
		struct sv_txt want = sv_of_range(a_pool + off, a_pool + off + len);
		VPOST("C02", ok == URI_TRUE && g_live == live0 + 1, "PushPathSegment: one node allocated");
		VPOST("C02,C07", sv_of_uri(&v1, &u) && sv_wf_uri(&u) && v1.path.n == n0 + 1, "PushPathSegment: list well formed, one node longer, tail is the last node");
		VPOST("C02", sv_txt_eq(&v1.path.seg[n0 < SV_MAXSEG ? n0 : 0], &want), "PushPathSegment: the new last segment is exactly the given range");
		VPOST("C02,C03", len != 0 || (u.pathTail->text.first == URI_FUNC(SafeToPointTo) && u.pathTail->text.afterLast == URI_FUNC(SafeToPointTo)),
			"PushPathSegment: an empty segment points to the private placeholder");
		VPOST("C02,C03", len == 0 || (u.pathTail->text.first == a_pool + off && u.pathTail->text.afterLast == a_pool + off + len),
			"PushPathSegment: a non-empty segment is the given sub-range of the input");
	}
}

void h_fixtrail(void) {
	URI_TYPE(Uri) u; struct sv_view v0, v1; int lone;
	URI_TYPE(PathSegment) *h0, *t0;
	VU_INPUT(a);
	__CPROVER_assume(vu_shape_ok(&a, a_pool));
	VMM_RESET(0);
	vu_build(&u, &a, a_pool, 0);
	sv_of_uri(&v0, &u); h0 = u.pathHead; t0 = u.pathTail;
	lone = (!a.absolutePath && a.hostkind == VU_HK_NONE && a.nseg == 1 && a.seg[0].len == 0);
	VCOVER(lone, "host-less relative path consisting of one empty segment");
	VCOVER_END;
	URI_FUNC(FixEmptyTrailSegment)(&u, &vmm);
	VPOST("C02", (u.pathHead == h0 && u.pathTail == t0) || (u.pathHead == NULL && u.pathTail == NULL), "FixEmptyTrailSegment: nothing changes or the list becomes empty");
	VPOST("C02,C07", lone == (u.pathHead == NULL && h0 != NULL), "FixEmptyTrailSegment drops exactly the lone empty segment of a host-less relative path");
	VPOST("C13", g_frees == (lone ? 1 : 0), "FixEmptyTrailSegment releases exactly the dropped node");
}

void h_stop(void) {
	URI_TYPE(Uri) u; URI_TYPE(ParserState) st;
	ND(unsigned char, which); ND(unsigned char, off);
	VU_INPUT(a);
	__CPROVER_assume(vu_shape_ok(&a, a_pool) && which <= 1 && off <= VT);
	VMM_RESET(0);
	vu_build(&u, &a, a_pool, 0);
	st.uri = &u; st.errorCode = 0; st.errorPos = NULL; st.reserved = NULL;
	VCOVER(a.nseg == VM && a.hostkind == VU_HK_IP6, "partial result with VM segments and an IPv6 block");
	VCOVER_END;
	if (which) {
		URI_FUNC(StopSyntax)(&st, a_pool + off, &vmm);
		VPOST("C01,C03", st.errorCode == URI_ERROR_SYNTAX && st.errorPos == a_pool + off, "StopSyntax records the syntax error and its position");
	} else {
		URI_FUNC(StopMalloc)(&st, &vmm);
		VPOST("C03,C14", st.errorCode == URI_ERROR_MALLOC && st.errorPos == NULL, "StopMalloc records the out-of-memory error");
	}
	VPOST("C03,C13,C14", g_live == 0 && members_clean(&u, 0), "error exit: nothing remains allocated, members reset");
}

/* all fifteen recorded marks outside `mayChange` are the same in x and y */
#define MKH_SF 0x0001u
#define MKH_SA 0x0002u
#define MKH_UF 0x0004u
#define MKH_UA 0x0008u
#define MKH_HF 0x0010u
#define MKH_HA 0x0020u
#define MKH_PF 0x0040u
#define MKH_PA 0x0080u
#define MKH_QF 0x0100u
#define MKH_QA 0x0200u
#define MKH_FF 0x0400u
#define MKH_FA 0x0800u
#define MKH_IF 0x1000u
#define MKH_IA 0x2000u
#define MKH_AP 0x4000u
static int mk_same(const URI_TYPE(Uri) *x, const URI_TYPE(Uri) *y, unsigned mayChange) {
#define MKH_F(bit, f) ((mayChange & (bit)) || x->f == y->f)
	return MKH_F(MKH_SF, scheme.first) && MKH_F(MKH_SA, scheme.afterLast) && MKH_F(MKH_UF, userInfo.first) && MKH_F(MKH_UA, userInfo.afterLast)
		&& MKH_F(MKH_HF, hostText.first) && MKH_F(MKH_HA, hostText.afterLast) && MKH_F(MKH_PF, portText.first) && MKH_F(MKH_PA, portText.afterLast)
		&& MKH_F(MKH_QF, query.first) && MKH_F(MKH_QA, query.afterLast) && MKH_F(MKH_FF, fragment.first) && MKH_F(MKH_FA, fragment.afterLast)
		&& MKH_F(MKH_IF, hostData.ipFuture.first) && MKH_F(MKH_IA, hostData.ipFuture.afterLast) && MKH_F(MKH_AP, absolutePath);
}

/* the three host-end helpers: host range closed at `first`, IPv4 classification by re-parsing the host text against the
 * RFC 3986 IPv4address recogniser, octets by value, one block allocated iff IPv4, marks moved as the grammar demands */
#ifndef V_TXT
# define V_TXT 16
#endif
void h_onexit(void) {
	URI_TYPE(Uri) u, b; URI_TYPE(ParserState) st; UriBool ok;
	unsigned char want[4]; int isip4, i, hlen;
	const URI_CHAR *hfirst, *hafter;
	ND_ARR(URI_CHAR, txt, V_TXT);
	ND(unsigned char, which);       /* 0 OwnHost2, 1 OwnHostUserInfo, 2 OwnPortUserInfo */
	ND(unsigned char, m1); ND(unsigned char, m2); ND(unsigned char, pos);
	ND(unsigned long long, failmask);
	__CPROVER_assume(which <= 2 && m1 <= m2 && m2 <= pos && pos <= V_TXT);
	memset(&u, 0, sizeof(u));
	VMM_RESET(failmask);
	/* marks as the rule functions leave them: OwnHost2: host begins at m1; OwnHostUserInfo: the text so far was recorded
	 * as user info beginning at m1; OwnPortUserInfo: ditto, with the host end already recorded at m2 (':' seen) */
	if (which == 0) { u.hostText.first = txt + m1; }
	else if (which == 1) { u.userInfo.first = txt + m1; }
	else { u.userInfo.first = txt + m1; u.hostText.afterLast = txt + m2; u.portText.first = txt + m2; }
	st.uri = &u; st.errorCode = 0; st.errorPos = NULL; st.reserved = NULL;
	b = u;
	VCOVER(which == 2 && pos - m1 >= 9, "port-or-userinfo exit with a host text of 9 or more characters");
	VCOVER_END;
	if (which == 0) ok = URI_FUNC(OnExitOwnHost2)(&st, txt + pos, &vmm);
	else if (which == 1) ok = URI_FUNC(OnExitOwnHostUserInfo)(&st, txt + pos, &vmm);
	else ok = URI_FUNC(OnExitOwnPortUserInfo)(&st, txt + pos, &vmm);
	hfirst = txt + m1; hafter = (which == 2) ? txt + m2 : txt + pos; hlen = (int)(hafter - hfirst);
	isip4 = spec_ip4(hfirst, (unsigned long)hlen, want);
	VPOST("C02", u.hostText.first == hfirst && u.hostText.afterLast == hafter, "host-end helper: host text is exactly the range between the recorded begin and the end position");
	VPOST("C02", which == 0 || u.userInfo.first == NULL, "host-end helper: what was taken for user info is the host after all (mark reset)");
	VPOST("C02", which != 2 || (u.portText.first == txt + m2 && u.portText.afterLast == txt + pos), "port-end helper: port text ends at the end position");
	if (g_failed > 0) {
		VPOST("C14,C02", ok == URI_FALSE && u.hostData.ip4 == NULL && g_live == 0, "host-end helper: refused allocation => FALSE, nothing allocated");
	} else {
		VPOST("C02", ok == URI_TRUE, "host-end helper succeeds");
		VPOST("C01,C02", (u.hostData.ip4 != NULL) == (isip4 != 0), "host classified as IPv4 exactly when its text is an RFC 3986 IPv4address");
		VPOST("C02", u.hostData.ip4 == NULL || (u.hostData.ip4->data[0] == want[0] && u.hostData.ip4->data[1] == want[1]
			&& u.hostData.ip4->data[2] == want[2] && u.hostData.ip4->data[3] == want[3]), "IPv4 address bytes equal the value written in the text");
		VPOST("C13", g_live == (u.hostData.ip4 != NULL ? 1 : 0), "host-end helper keeps the probe block only for an IPv4 host");
	}
	VPOST("C02", u.scheme.first == b.scheme.first && u.query.first == b.query.first && u.fragment.first == b.fragment.first && u.pathHead == b.pathHead
		&& u.hostData.ip6 == b.hostData.ip6 && u.absolutePath == b.absolutePath, "host-end helper touches nothing else");
	/* the may-change sets the Marks.* obligations assume for these helpers (contracts/UriParse.contracts.h, M_OnExit*):
	 * OwnHost2 {host end}, OwnHostUserInfo {user-info begin, host begin, host end}, OwnPortUserInfo {user-info begin, host begin, port end} */
	VPOST("C02", mk_same(&u, &b, which == 0 ? MKH_HA : which == 1 ? (MKH_UF | MKH_HF | MKH_HA) : (MKH_UF | MKH_HF | MKH_PA)),
		"host-end helper changes no recorded mark outside its may-change set");
	for (i = 0; i < 1; i++) { (void)i; }
}

/* uriOnExitSegmentNzNcOrScheme2 ("not a scheme": what was recorded as the scheme start is a path segment) and
 * uriOnExitPartHelperTwo: the facts their contracts state in the Marks.* obligations, on the real code */
void h_onexit_seg(void) {
	URI_TYPE(Uri) u, b; URI_TYPE(ParserState) st; UriBool ok; struct sv_view v1;
	ND_ARR(URI_CHAR, txt, 4);
	ND(unsigned char, m1); ND(unsigned char, pos); ND(unsigned char, which); ND(unsigned long long, failmask);
	__CPROVER_assume(m1 <= pos && pos <= 4 && which <= 1);
	memset(&u, 0, sizeof(u));
	VMM_RESET(failmask);
	u.scheme.first = txt + m1;
	st.uri = &u; st.errorCode = 0; st.errorPos = NULL; st.reserved = NULL;
	b = u;
	VCOVER(which == 0 && pos - m1 >= 2, "a provisional scheme of 2 or more characters");
	VCOVER_END;
	if (which == 1) {
		URI_FUNC(OnExitPartHelperTwo)(&st);
		VPOST("C02", u.absolutePath == URI_TRUE && mk_same(&u, &b, MKH_AP) && u.pathHead == NULL, "OnExitPartHelperTwo sets the absolute-path flag and nothing else");
		return;
	}
	ok = URI_FUNC(OnExitSegmentNzNcOrScheme2)(&st, txt + pos, &vmm);
	VPOST("C02", mk_same(&u, &b, MKH_SF), "OnExitSegmentNzNcOrScheme2 changes no recorded mark except the scheme start");
	if (g_failed > 0) {
		VPOST("C14,C02", ok == URI_FALSE && g_live == 0 && u.pathHead == NULL, "OnExitSegmentNzNcOrScheme2: refused allocation => FALSE, nothing allocated");
	} else {
		VPOST("C02", ok == URI_TRUE && u.scheme.first == NULL, "OnExitSegmentNzNcOrScheme2: the provisional scheme start is withdrawn");
		VPOST("C02", sv_of_uri(&v1, &u) && sv_wf_uri(&u) && v1.path.n == 1 && u.pathHead != NULL
			&& (pos == m1 ? (u.pathHead->text.first == URI_FUNC(SafeToPointTo) && u.pathHead->text.afterLast == URI_FUNC(SafeToPointTo))
			              : (u.pathHead->text.first == txt + m1 && u.pathHead->text.afterLast == txt + pos)),
			"OnExitSegmentNzNcOrScheme2: the text from the provisional scheme start to the end position becomes the first path segment");
	}
}
