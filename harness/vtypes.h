/* vtypes.h - brings the library's types and name macros into scope for the selected character pass,
 * *before* the contract declarations and before the library's .c files are included. */
#ifndef VTYPES_H
#define VTYPES_H
#include "vh.h"
#include <uriparser/UriDefsConfig.h>
#ifdef VW
# include <uriparser/UriDefsUnicode.h>
#else
# include <uriparser/UriDefsAnsi.h>
#endif
#include <uriparser/Uri.h>
#include <uriparser/UriIp4.h>
#include "UriCommon.h"
#include "UriMemory.h"
/* a character range [first, afterLast) of g-many characters inside one object, suitably aligned (DESIGN P14) */
#define VSZ(n) ((n) * sizeof(URI_CHAR))
#endif
