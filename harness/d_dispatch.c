/* route-D dispatch obligation of ONE parser rule function (chosen by the generated dispatch_current.h):
 * code == LL(1) table for every lookahead character; callees are replaced by their logging interface contracts,
 * self-calls by the body-less twin <F>__rec that carries F's logging interface contract (DESIGN P9). */
#include "vtypes.h"
#define P_LOG 1
#include "dispatch_current.h"
#include "UriParse.contracts.h"
#include "UriMemory.c"
#include "UriParse.c"

size_t nondet_size(void);
void *(*const keep_pm1)(UriMemoryManager *, size_t) = pm_malloc_contract;
void *(*const keep_pm2)(UriMemoryManager *, size_t, size_t) = pm_calloc_contract;
void (*const keep_pm3)(UriMemoryManager *, void *) = pm_free_contract;
#ifndef V_INMAX
# define V_INMAX 1000000
#endif
void h_dispatch(void) {
	size_t n = nondet_size(), i = nondet_size();
	URI_CHAR *buf; URI_TYPE(ParserState) *st; UriMemoryManager *mem;
	__CPROVER_assume(n <= V_INMAX && i <= n);
	buf = malloc(n * sizeof(URI_CHAR));
	__CPROVER_assume(buf != NULL);
	g_in = buf; g_inlen = n; g_tr_n = 0;
#if P_DISPATCH_HAS_MEMORY
	P_CALLNAME(P_DISPATCH_FUNC)(st, buf + i, buf + n, mem);
#else
	P_CALLNAME(P_DISPATCH_FUNC)(st, buf + i, buf + n);
#endif
}
