/* ManagerEntry.*.H - C13: "an incomplete manager is rejected with the dedicated error code before anything is allocated",
 * for every public function that takes a memory manager.  Route H, loop-free paths only: the managers are constants
 * (five variants, one member missing each), so symbolic execution decides the completeness test and everything behind
 * the rejection is unreachable; the URIs, lists and texts handed in are arbitrary (nondeterministic bytes - in
 * particular an output URI full of stale values), because a rejected call must not look at them.
 * Obligations per function and variant: the dedicated code; no request to and no release through the manager; the
 * output objects keep every byte. */
#include "vall.h"
#include "vmm.h"
#define NTXT 8
struct outs { URI_TYPE(Uri) a; URI_TYPE(ParserState) st; const URI_CHAR *ep; URI_TYPE(QueryList) *qlp; URI_CHAR *sp; int cnt; };
void harness(void) {
	int which, hole;
	ND(unsigned int, gk);      /* ghost index: which byte of the output objects is watched */
	for (which = 0; which < 10; which++) for (hole = 0; hole < 5; hole++) {
		UriMemoryManager mm = vmm;
		struct outs o, o0; URI_TYPE(Uri) b, c; URI_TYPE(QueryList) ql; URI_CHAR text[NTXT];
		ND(unsigned int, mask); ND(unsigned char, f0); ND(unsigned char, f1);
		int r = -99;
		if (hole == 0) mm.malloc = NULL; else if (hole == 1) mm.calloc = NULL; else if (hole == 2) mm.realloc = NULL;
		else if (hole == 3) mm.reallocarray = NULL; else mm.free = NULL;
		o0 = o;                /* both copies hold the same arbitrary bytes */
		o.st.uri = &o.a; o0.st.uri = &o.a;
		VMM_RESET(0);
		switch (which) {
		case 0: r = URI_FUNC(AddBaseUriExMm)(&o.a, &b, &c, (UriResolutionOptions)(f0 & 1), &mm); break;
		case 1: r = URI_FUNC(RemoveBaseUriMm)(&o.a, &b, &c, (f0 & 1) ? URI_TRUE : URI_FALSE, &mm); break;
		case 2: r = URI_FUNC(NormalizeSyntaxExMm)(&o.a, mask, &mm); break;
		case 3: r = URI_FUNC(MakeOwnerMm)(&o.a, &mm); break;
		case 4: r = URI_FUNC(FreeUriMembersMm)(&o.a, &mm); break;
		case 5: r = URI_FUNC(ParseSingleUriExMm)(&o.a, text, text + NTXT, &o.ep, &mm); break;
		case 6: r = URI_FUNC(ParseUriExMm)(&o.st, text, text + NTXT, &mm); break;
		case 7: r = URI_FUNC(ComposeQueryMallocExMm)(&o.sp, &ql, (f0 & 1) ? URI_TRUE : URI_FALSE, (f1 & 1) ? URI_TRUE : URI_FALSE, &mm); break;
		case 8: r = URI_FUNC(DissectQueryMallocExMm)(&o.qlp, &o.cnt, text, text + NTXT, (f0 & 1) ? URI_TRUE : URI_FALSE, (UriBreakConversion)(f1 % 4), &mm); break;
		default: r = URI_FUNC(FreeQueryListMm)(&ql, &mm); break;
		}
		VPOST("C13", r == URI_ERROR_MEMORY_MANAGER_INCOMPLETE, "a manager with a missing member is rejected with URI_ERROR_MEMORY_MANAGER_INCOMPLETE");
		VPOST("C13,C14", g_allocs == 0 && g_frees == 0 && g_live == 0 && g_mm_misuse == 0, "rejected before anything is requested from or released through the manager");
		VFRAME("C13,C12", gk >= sizeof(struct outs) || ((const unsigned char *)&o)[gk] == ((const unsigned char *)&o0)[gk], "a rejected call leaves every byte of its output objects alone");
	}
}
