/* uriParseIpFourAddress against the RFC 3986 IPv4address recogniser (route H, loop-free: complete for every text length):
 *   C01/C02  success <=> the text is an IPv4address; the four octets equal the decimal values written
 *   C03      reads only [first, afterLast): the text is a heap block of exactly n characters */
#include "vall.h"
#include "spec_ip.h"
#ifndef V_NMAX
# define V_NMAX 1000000
#endif
void harness(void) {
	unsigned char got[4], want[4];
	URI_CHAR *text; int r, ok, i;
	ND(unsigned char, null_out);
	ND(size_t, n);
	ND_ARR(unsigned char, init, 4);
	ND_ARR(URI_CHAR, head, 16);       /* the first 16 characters (all the function can look at): named input, replayable */
	__CPROVER_assume(n <= V_NMAX && null_out <= 1);
#ifdef V_CONSTBLOCK   /* W pass: a block of symbolic size does not fit into memory; one branch per size, each with a constant size */
	text = NULL;
	for (i = 0; i <= V_NMAX; i++) if ((size_t)i == n) text = malloc((i ? i : 1) * sizeof(URI_CHAR));
#else
	text = malloc((n ? n : 1) * sizeof(URI_CHAR));
#endif
	__CPROVER_assume(text != NULL);
	for (i = 0; i < 4; i++) { got[i] = init[i]; want[i] = 0; }
	for (i = 0; i < 16; i++) if ((size_t)i < n) text[i] = head[i];
	VCOVER(n == 15 && text[3] == _UT('.'), "a 15-character text");
	VCOVER(n == 7, "a 7-character text");
	VCOVER_END;
	r = URI_FUNC(ParseIpFourAddress)(null_out ? NULL : got, n ? text : text, text + n);
	ok = spec_ip4(text, n, want);
	VPOST("C01,C02", r == URI_SUCCESS || r == URI_ERROR_SYNTAX, "ParseIpFourAddress returns success or the syntax error code");
	if (null_out) {
		VPOST("C01", r == URI_ERROR_SYNTAX, "ParseIpFourAddress: NULL output => syntax error");
	} else {
		VPOST("C01,C02", (r == URI_SUCCESS) == (ok != 0), "ParseIpFourAddress succeeds exactly on RFC 3986 IPv4address texts");
		VPOST("C02", r != URI_SUCCESS || (got[0] == want[0] && got[1] == want[1] && got[2] == want[2] && got[3] == want[3]),
			"ParseIpFourAddress: the four octets equal the decimal values written in the text");
	}
}
