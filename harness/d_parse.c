/* route-D harnesses for the parser rule functions of src/UriParse.c: the input buffer is a heap object of exactly g_inlen
 * characters built by real assignments; state / uri / memory manager are left to the contract's requires (is_fresh). */
#include "vtypes.h"
#include "UriParse.contracts.h"
#include "UriMemory.c"
#include "UriParse.c"

size_t nondet_size(void);
void *(*const keep_pm1)(UriMemoryManager *, size_t) = pm_malloc_contract;
void *(*const keep_pm2)(UriMemoryManager *, size_t, size_t) = pm_calloc_contract;
void (*const keep_pm3)(UriMemoryManager *, void *) = pm_free_contract;

#ifndef V_INMAX
# define V_INMAX 1000000
#endif
static const URI_CHAR *h_setup(void) {
	size_t n = nondet_size(), i = nondet_size();
	URI_CHAR *buf;
	__CPROVER_assume(n <= V_INMAX && i <= n);
	buf = malloc(n * sizeof(URI_CHAR));           /* exactly the input: a read at or beyond afterLast == end faults */
	__CPROVER_assume(buf != NULL);
	g_in = buf; g_inlen = n;
	return buf + i;
}
#define H_RULE4(Name) void h_##Name(void) { URI_TYPE(ParserState) *st; UriMemoryManager *mem; const URI_CHAR *first = h_setup(); \
	URI_FUNC(Name)(st, first, g_in + g_inlen, mem); }
#define H_RULE3(Name) void h_##Name(void) { URI_TYPE(ParserState) *st; const URI_CHAR *first = h_setup(); \
	URI_FUNC(Name)(st, first, g_in + g_inlen); }

H_RULE4(ParseAuthority) H_RULE3(ParseAuthorityTwo) H_RULE3(ParseHexZero) H_RULE4(ParseHierPart) H_RULE4(ParseIpFutLoop)
H_RULE4(ParseIpFutStopGo) H_RULE4(ParseIpFuture) H_RULE4(ParseIpLit2) H_RULE4(ParseMustBeSegmentNzNc) H_RULE4(ParseOwnHost)
H_RULE4(ParseOwnHost2) H_RULE4(ParseOwnHostUserInfo) H_RULE4(ParseOwnHostUserInfoNz) H_RULE4(ParseOwnPortUserInfo)
H_RULE4(ParseOwnUserInfo) H_RULE4(ParsePartHelperTwo) H_RULE4(ParsePathAbsEmpty) H_RULE4(ParsePathAbsNoLeadSlash)
H_RULE4(ParsePathRootless) H_RULE4(ParsePchar) H_RULE4(ParsePctEncoded) H_RULE4(ParsePctSubUnres) H_RULE3(ParsePort)
H_RULE4(ParseQueryFrag) H_RULE4(ParseSegment) H_RULE4(ParseSegmentNz) H_RULE4(ParseSegmentNzNcOrScheme2) H_RULE4(ParseUriReference)
H_RULE4(ParseUriTail) H_RULE4(ParseUriTailTwo) H_RULE4(ParseZeroMoreSlashSegs)

/* entry points: range arguments may be NULL */
_Bool nondet_bool(void);
void h_ParseUriExMm(void) {
	URI_TYPE(ParserState) *st; UriMemoryManager *mem; const URI_CHAR *first = h_setup(); const URI_CHAR *afterLast = g_in + g_inlen;
	if (nondet_bool()) first = NULL; if (nondet_bool()) afterLast = NULL;
	URI_FUNC(ParseUriExMm)(st, first, afterLast, mem);
}
void h_ParseSingleUriExMm(void) {
	URI_TYPE(Uri) *u; UriMemoryManager *mem; const URI_CHAR **ep; const URI_CHAR *first = h_setup(); const URI_CHAR *afterLast = g_in + g_inlen;
	if (nondet_bool()) first = NULL; if (nondet_bool()) afterLast = NULL;
	URI_FUNC(ParseSingleUriExMm)(u, first, afterLast, ep, mem);
}
