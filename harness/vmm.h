/* vmm.h - the memory manager used by route-H/N harnesses: an *external component with an assumed contract*
 * (DESIGN 2.4/6).  Every request may fail independently (bit k of the nondeterministic g_failmask decides request k),
 * blocks are counted in a ledger, and the actual blocks come from CBMC's / the C library's malloc+free so that
 * double free, free of a pointer never handed out, interior-pointer free and use-after-free are caught by the
 * verifier's (natively: ASan's) own checks. */
#ifndef VMM_H
#define VMM_H
#include "vh.h"
#include <uriparser/UriBase.h>

#define VMM_MAXREQ 64
static unsigned long long g_failmask; /* set from an ND input by the harness */
static int g_allocs;                  /* number of requests so far */
static int g_live;                    /* blocks handed out and not yet returned */
static int g_frees;                   /* non-NULL frees */
static int g_failed;                  /* number of requests that were refused */
static int g_mm_misuse;               /* realloc/reallocarray used (the library never does) */
static size_t g_last_size;

static void *vmm_take(size_t size, int zero) {
	int k = g_allocs;
	void *p;
	g_allocs++;
	g_last_size = size;
	if (k >= VMM_MAXREQ || ((g_failmask >> k) & 1ULL)) { g_failed++; return NULL; }
#if defined(VW) && defined(URI_CHAR) && !defined(VREPLAY)
	/* W pass: give text blocks the element type wchar_t (CBMC types a heap object after the sizeof in the malloc
	 * argument; an untyped block is a byte array and every wchar_t access becomes four byte operations on it) */
	if (size == sizeof(URI_TYPE(PathSegment))) p = zero ? calloc(1, sizeof(URI_TYPE(PathSegment))) : malloc(sizeof(URI_TYPE(PathSegment)));
	else if (size == sizeof(URI_TYPE(QueryList))) p = zero ? calloc(1, sizeof(URI_TYPE(QueryList))) : malloc(sizeof(URI_TYPE(QueryList)));
	else if (size == sizeof(UriIp6)) p = zero ? calloc(1, sizeof(UriIp6)) : malloc(sizeof(UriIp6));
# ifdef VMM_MAXCONST
	else if (size % sizeof(wchar_t) == 0 && size > sizeof(UriIp4) && size <= VMM_MAXCONST) {
		size_t k_;         /* constant element count in each branch (see below) */
		p = NULL;
		for (k_ = 2; k_ <= VMM_MAXCONST / sizeof(wchar_t); k_++) if (k_ * sizeof(wchar_t) == size) { p = zero ? calloc(k_, sizeof(wchar_t)) : malloc(k_ * sizeof(wchar_t)); }
	}
# endif
	else if (size % sizeof(wchar_t) == 0 && size > sizeof(UriIp4)) p = zero ? calloc(size / sizeof(wchar_t), sizeof(wchar_t)) : malloc((size / sizeof(wchar_t)) * sizeof(wchar_t));
	else
#endif
#ifdef VMM_MAXCONST
	/* requests of up to VMM_MAXCONST bytes get a block whose size is a *constant* in each branch (heap objects of
	 * symbolic size are very expensive in CBMC); the block still has exactly the requested size */
	if (size >= 1 && size <= VMM_MAXCONST) {
		size_t k_;
		p = NULL;
		for (k_ = 1; k_ <= VMM_MAXCONST; k_++) if (k_ == size) { p = zero ? calloc(1, k_) : malloc(k_); }
	} else
#endif
	p = zero ? calloc(1, size) : malloc(size);
#ifdef VREPLAY
	if (!p) { g_failed++; return NULL; }
#else
	__CPROVER_assume(p != NULL);
#endif
	g_live++;
	return p;
}
static void *vmm_malloc(UriMemoryManager *m, size_t size) { (void)m; return vmm_take(size, 0); }
static void *vmm_calloc(UriMemoryManager *m, size_t n, size_t size) {
	(void)m;
	if (n != 0 && size > ((size_t)-1) / n) { g_allocs++; g_failed++; return NULL; }
	return vmm_take(n * size, 1);
}
static void *vmm_realloc(UriMemoryManager *m, void *p, size_t size) { (void)m; (void)p; (void)size; g_mm_misuse++; return NULL; }
static void *vmm_reallocarray(UriMemoryManager *m, void *p, size_t n, size_t size) { (void)m; (void)p; (void)n; (void)size; g_mm_misuse++; return NULL; }
static void vmm_free(UriMemoryManager *m, void *p) {
	(void)m;
	if (p != NULL) { g_live--; g_frees++; }
	free(p);
}
static UriMemoryManager vmm = { vmm_malloc, vmm_calloc, vmm_realloc, vmm_reallocarray, vmm_free, NULL };

/* harness-side allocation of blocks that the library is entitled to free through the manager (owned texts, nodes):
 * never fails, counted in the ledger */
static void *vmm_give(size_t size) {
	void *p = malloc(size ? size : 1);
#ifndef VREPLAY
	__CPROVER_assume(p != NULL);
#endif
	g_live++;
	return p;
}
#define VMM_RESET(failmask) do { g_failmask = (failmask); g_allocs = 0; g_live = 0; g_frees = 0; g_failed = 0; g_mm_misuse = 0; } while (0)
#endif
