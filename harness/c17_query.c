/* C17 (bounded part): query lists.
 * h_dissect: uriDissectQueryMallocExMm (+ uriAppendQueryItem, uriUnescapeInPlaceEx, uriFreeQueryListMm real) against
 *            spec_dissect: split on '&', first '=', empty key without value dropped, NULL vs empty value, order, count;
 *            every allocation may fail (C14): MALLOC, nothing outstanding; release through uriFreeQueryListMm (C13).
 * h_roundtrip: uriComposeQueryEx then uriDissectQueryMallocExMm with matching options gives the list back;
 *            composed text only has characters legal in a query; charsRequired sufficient; written == strlen+1. */
#include "vall.h"
#include "vmm.h"
#ifndef VN
# define VN 4          /* query text length bound (h_dissect) */
#endif
#ifndef VI
# define VI 2          /* items (h_roundtrip) */
#endif
#ifndef VS
# define VS 2          /* characters per key/value (h_roundtrip) */
#endif

/* ---- specification of dissection: item boundaries (positions in the text) ----
 * items are the pieces between '&'; a piece is split at its first '='; a piece with an empty key and no '=' is no item */
struct sq_item { int kfirst, kafter, vfirst, vafter; };   /* vfirst == -1: no value */
static int spec_dissect(const URI_CHAR *t, int n, struct sq_item item[VN + 1]) {
	int cnt = 0, i, j, start = 0, eq = -1;
	for (i = 0; i <= VN; i++) {
		if (i <= n) {
			if (i == n || t[i] == _UT('&')) {
				struct sq_item it;
				it.kfirst = start; it.kafter = (eq >= 0) ? eq : i; it.vfirst = (eq >= 0) ? eq + 1 : -1; it.vafter = (eq >= 0) ? i : -1;
				if (!(it.kfirst == it.kafter && it.vfirst < 0)) { for (j = 0; j <= VN; j++) if (j == cnt) item[j] = it; cnt++; }
				start = i + 1; eq = -1;
			} else if (t[i] == _UT('=') && eq < 0) eq = i;
		}
	}
	return cnt;
}

/* log of the contract stub stubs/append_query_item.c */
#define AQ_MAX 8
#ifdef VREPLAY   /* the native replay links the real uriAppendQueryItem, not the stub: the log exists but stays empty */
# define AQ_EXTERN
#else
# define AQ_EXTERN extern
#endif
AQ_EXTERN int g_aq_n;
AQ_EXTERN const URI_CHAR *g_aq_kf[AQ_MAX], *g_aq_ka[AQ_MAX], *g_aq_vf[AQ_MAX], *g_aq_va[AQ_MAX];
AQ_EXTERN int g_aq_p2s[AQ_MAX], g_aq_br[AQ_MAX], g_aq_effective[AQ_MAX];

/* uriDissectQueryMallocExMm with uriAppendQueryItem replaced by its contract stub: where the text is split, in which
 * order the items are appended, options passed through, count, failure handling */
void h_dissect(void) {
	URI_TYPE(QueryList) *list = (URI_TYPE(QueryList) *)0x10, *w;
	struct sq_item want[VN + 1];
	int count = -5, ret, nwant, i, k, ok = 1, neff = 0, len = 0;
	ND_ARR(URI_CHAR, txt, VN);
	ND(unsigned char, n); ND(unsigned char, plusToSpace); ND(int, br); ND(unsigned long long, failmask); ND(unsigned char, cnt_null); ND(unsigned char, nullarg);
	__CPROVER_assume(n <= VN && plusToSpace <= 1 && cnt_null <= 1 && nullarg <= 3 && br >= 0 && br <= 3);
	for (i = 0; i < VN; i++) __CPROVER_assume(txt[i] != 0);
	VMM_RESET(failmask);
	g_aq_n = 0;
	VCOVER(n == VN && txt[1] == _UT('&') && txt[2] == _UT('='), "text with '&' and '='");
	VCOVER_END;
	ret = URI_FUNC(DissectQueryMallocExMm)(nullarg == 1 ? NULL : &list, cnt_null ? NULL : &count, nullarg == 2 ? NULL : txt, nullarg == 3 ? NULL : txt + n,
		plusToSpace ? URI_TRUE : URI_FALSE, (UriBreakConversion)br, &vmm);
	if (nullarg) { VPOST("C17", ret == URI_ERROR_NULL && g_allocs == 0, "DissectQuery: NULL argument => URI_ERROR_NULL"); return; }
	VPOST("C13", g_mm_misuse == 0, "only malloc/calloc/free of the supplied manager are used");
	nwant = spec_dissect(txt, n, want);
	/* the effective AppendQueryItem calls, in order, are exactly the specified items */
	k = 0;
	for (i = 0; i < AQ_MAX; i++) if (i < g_aq_n && g_aq_effective[i]) {
		if (k >= nwant) ok = 0;
		else {
			struct sq_item it; for (len = 0; len <= VN; len++) if (len == k) it = want[len];
			if (g_aq_kf[i] != txt + it.kfirst || g_aq_ka[i] != txt + it.kafter) ok = 0;
			if (it.vfirst < 0 ? (g_aq_vf[i] != NULL) : (g_aq_vf[i] != txt + it.vfirst || g_aq_va[i] != txt + it.vafter)) ok = 0;
			if (g_aq_p2s[i] != (plusToSpace ? URI_TRUE : URI_FALSE) || g_aq_br[i] != br) ok = 0;
		}
		k++;
	}
	neff = k;
	if (g_failed > 0) {
		VPOST("C14", ret == URI_ERROR_MALLOC, "DissectQuery: a refused allocation request => URI_ERROR_MALLOC");
		VPOST("C14,C13", g_live == 0, "DissectQuery failed: the partial list has been released, nothing outstanding");
		VPOST("C14,C17", cnt_null || count == 0, "DissectQuery failed: item count reset");
		VPOST("C17", ok, "DissectQuery: up to the failure the items were appended in order at the specified split positions");
		return;
	}
	VPOST("C17,C14", ret == URI_SUCCESS, "DissectQuery: no allocation failure => success");
	VPOST("C17", ok && neff == nwant, "DissectQuery appends exactly the pieces between '&', split at their first '=', in order; no value iff no '='; an empty key without value is dropped; options passed through");
	VPOST("C17", cnt_null || count == nwant, "DissectQuery: reported item count equals the number of items");
	w = list; len = 0;
	for (i = 0; i <= VN + 1; i++) if (w != NULL) { len++; w = w->next; }
	VPOST("C17", w == NULL && len == nwant, "DissectQuery: the list has one node per item");
	VPOST("C13", URI_FUNC(FreeQueryListMm)(list, &vmm) == URI_SUCCESS && g_live == 0, "FreeQueryListMm releases every block of the list");
}

/* the real uriAppendQueryItem (with the real uriUnescapeInPlaceEx): exact-size copies, unescaped, NULL vs empty value,
 * complete roll-back when a request is refused */
void h_append(void) {
	URI_TYPE(QueryList) *slot = (URI_TYPE(QueryList) *)0x10; int count, count0, i; UriBool r;
	ND_ARR(URI_CHAR, txt, VN);
	ND(unsigned char, a); ND(unsigned char, b); ND(unsigned char, c); ND(unsigned char, d); ND(unsigned char, hasval); ND(unsigned char, plusToSpace);
	ND(unsigned long long, failmask); ND(int, cnt0);
	__CPROVER_assume(a <= b && b <= VN && c <= d && d <= VN && hasval <= 1 && plusToSpace <= 1 && cnt0 >= 0 && cnt0 < 1000);
	for (i = 0; i < VN; i++) __CPROVER_assume(txt[i] != 0 && txt[i] != _UT('%'));
	count = count0 = cnt0;
	VMM_RESET(failmask);
	VCOVER(b - a == VN && hasval && d - c == 1, "key of VN characters with a value");
	VCOVER_END;
	r = URI_FUNC(AppendQueryItem)(&slot, &count, txt + a, txt + b, hasval ? txt + c : NULL, hasval ? txt + d : NULL, plusToSpace ? URI_TRUE : URI_FALSE, URI_BR_DONT_TOUCH, &vmm);
	if (a == b && !hasval) {
		VPOST("C17", r == URI_TRUE && g_allocs == 0 && count == count0 && slot == (URI_TYPE(QueryList) *)0x10, "AppendQueryItem: empty key without value => nothing appended");
		return;
	}
	if (g_failed > 0) {
		VPOST("C14,C17", r == URI_FALSE && slot == NULL && count == count0, "AppendQueryItem: refused allocation => FALSE, slot reset, count unchanged");
		VPOST("C14,C13", g_live == 0, "AppendQueryItem: refused allocation => everything allocated so far is released");
		return;
	}
	VPOST("C17", r == URI_TRUE && count == count0 + 1 && slot != NULL && slot->next == NULL, "AppendQueryItem: one node appended, count incremented");
	{ int ok = 1, klen = b - a, vlen = d - c;
	  for (i = 0; i < VN; i++) if (i < klen && slot->key[i] != ((plusToSpace && txt[a + i] == _UT('+')) ? _UT(' ') : txt[a + i])) ok = 0;
	  if (slot->key[klen] != 0) ok = 0;
	  VPOST("C17", ok, "AppendQueryItem: key is the unescaped copy of the key range, NUL-terminated, in a block of exactly length+1 characters");
	  ok = 1;
	  if (!hasval) { if (slot->value != NULL) ok = 0; }
	  else { if (slot->value == NULL) ok = 0; else { for (i = 0; i < VN; i++) if (i < vlen && slot->value[i] != ((plusToSpace && txt[c + i] == _UT('+')) ? _UT(' ') : txt[c + i])) ok = 0; if (slot->value[vlen] != 0) ok = 0; } }
	  VPOST("C17", ok, "AppendQueryItem: value NULL iff none given, else the unescaped copy (an empty value stays an empty string)");
	}
	VPOST("C13", g_live == (hasval ? 3 : 2), "AppendQueryItem: node, key and (if present) value are the only blocks");
	VPOST("C13", URI_FUNC(FreeQueryListMm)(slot, &vmm) == URI_SUCCESS && g_live == 0, "FreeQueryListMm releases every block of the item");
}

#define LEGAL_QUERY_CHAR(c) (((c) >= _UT('a') && (c) <= _UT('z')) || ((c) >= _UT('A') && (c) <= _UT('Z')) || ((c) >= _UT('0') && (c) <= _UT('9')) \
	|| (c) == _UT('-') || (c) == _UT('.') || (c) == _UT('_') || (c) == _UT('~') || (c) == _UT('%') || (c) == _UT('+') || (c) == _UT('&') || (c) == _UT('='))
#define OUTMAX (VI * (2 * 6 * VS + 2) + 1)
static int cstr_eq(const URI_CHAR *a, const URI_CHAR *b) { int i; for (i = 0; i <= VS; i++) { if (a[i] != b[i]) return 0; if (a[i] == 0) return 1; } return 1; }
static int cstr_len(const URI_CHAR *a) { int i; for (i = 0; i <= VS; i++) if (a[i] == 0) return i; return VS; }

void h_roundtrip(void) {
	URI_TYPE(QueryList) items[VI], *back = NULL, *w;
	URI_CHAR key[VI][VS + 1], val[VI][VS + 1];
	URI_CHAR out[OUTMAX + 2]; int required = -3, written = -3, r1, r2, r3, count = -3, i, j, expect_n = 0, ok = 1, len;
	ND_ARR(URI_CHAR, kbuf, VI * VS); ND_ARR(URI_CHAR, vbuf, VI * VS);
	ND_ARR(unsigned char, klen, VI); ND_ARR(signed char, vlen, VI);   /* vlen -1: value NULL */
	ND(unsigned char, nitems); ND(unsigned char, spaceToPlus); ND(unsigned char, normalizeBreaks); ND(int, maxChars); ND(unsigned char, gj);
	__CPROVER_assume(nitems >= 1 && nitems <= VI && spaceToPlus <= 1 && normalizeBreaks <= 1 && gj < OUTMAX);
	for (i = 0; i < VI; i++) {
		__CPROVER_assume(klen[i] <= VS && vlen[i] >= -1 && vlen[i] <= VS);
		for (j = 0; j < VS; j++) {
			key[i][j] = (j < klen[i]) ? kbuf[i * VS + j] : 0; val[i][j] = (j < vlen[i]) ? vbuf[i * VS + j] : 0;
			/* code points 1..255; with break normalization the property only promises CR LF canonicalisation: keep breaks out */
			__CPROVER_assume(!(j < klen[i]) || (key[i][j] != 0 && (!normalizeBreaks || (key[i][j] != 10 && key[i][j] != 13))));
			__CPROVER_assume(!(j < vlen[i]) || (val[i][j] != 0 && (!normalizeBreaks || (val[i][j] != 10 && val[i][j] != 13))));
#ifdef VW
			__CPROVER_assume(key[i][j] >= 0 && key[i][j] <= 255 && val[i][j] >= 0 && val[i][j] <= 255);
#endif
		}
		key[i][VS] = 0; val[i][VS] = 0;
		items[i].key = key[i]; items[i].value = (vlen[i] < 0) ? NULL : val[i];
		items[i].next = (i + 1 < nitems) ? &items[i + 1] : NULL;
		if (i < nitems && !(klen[i] == 0 && vlen[i] < 0)) expect_n++;
	}
	__CPROVER_assume(maxChars >= -1 && maxChars <= OUTMAX + 1);
	VMM_RESET(0);
	VCOVER(nitems == VI && klen[0] == VS && vlen[VI - 1] == VS, "VI items with full-length key and value");
	VCOVER_END;
	r1 = URI_FUNC(ComposeQueryCharsRequiredEx)(items, &required, spaceToPlus, normalizeBreaks);
	VPOST("C17", r1 == URI_SUCCESS && required >= 0 && required < OUTMAX, "ComposeQueryCharsRequiredEx succeeds");
	for (i = 0; i < OUTMAX + 2; i++) out[i] = (URI_CHAR)(0x55);      /* canaries: nothing at or beyond maxChars may be written */
	r2 = URI_FUNC(ComposeQueryEx)(out, items, maxChars, &written, spaceToPlus, normalizeBreaks);
	VPOST("C17", r2 == URI_SUCCESS || r2 == URI_ERROR_OUTPUT_TOO_LARGE, "ComposeQueryEx: success or the too-large code");
	VPOST("C17", maxChars < required + 1 || r2 == URI_SUCCESS, "ComposeQueryEx: the chars-required figure (+1) is always sufficient");
	ok = 1; for (i = 0; i < OUTMAX + 2; i++) if (i >= maxChars && out[i] != (URI_CHAR)(0x55)) ok = 0;
	VPOST("C17", ok, "ComposeQueryEx never writes at or beyond maxChars");
	ok = 1;
	if (r2 != URI_SUCCESS) return;
	len = written - 1;
	VPOST("C17", written >= 1 && written <= maxChars && out[len] == 0, "ComposeQueryEx reports text length + 1 and terminates the text inside the buffer");
	VPOST("C17", gj >= len || (out[gj] != 0 && LEGAL_QUERY_CHAR(out[gj])), "composed text: no NUL inside, only characters that are legal in a URI query");
#ifdef V_COMPOSE_ONLY
	(void)back; (void)count; (void)r3; (void)w; (void)expect_n; (void)j;
	return;
#endif
	r3 = URI_FUNC(DissectQueryMallocExMm)(&back, &count, out, out + len, spaceToPlus, normalizeBreaks ? URI_BR_DONT_TOUCH : URI_BR_DONT_TOUCH, &vmm);
	VPOST("C17", r3 == URI_SUCCESS && count == expect_n, "dissecting the composed text: as many items as the list has (items with empty key and no value vanish)");
	w = back;
	for (i = 0; i < VI; i++) if (i < nitems && !(klen[i] == 0 && vlen[i] < 0)) {
		if (w == NULL) ok = 0;
		else {
			if (w->key == NULL || !cstr_eq(w->key, key[i])) ok = 0;
			if ((w->value == NULL) != (vlen[i] < 0)) ok = 0;
			else if (w->value != NULL && !cstr_eq(w->value, val[i])) ok = 0;
			w = w->next;
		}
	}
	VPOST("C17", ok && w == NULL, "compose then dissect with matching options returns the same keys and values, NULL vs empty value, order");
	(void)URI_FUNC(FreeQueryListMm)(back, &vmm);
	VPOST("C13", g_live == 0, "FreeQueryListMm releases every block of the list");
	(void)cstr_len;
}

/* uriComposeQueryMallocExMm: the result block is requested from the supplied manager with a size computed in characters
 * (required + 1 characters), holds exactly the text uriComposeQueryEx writes, and is the only block outstanding;
 * a refused request gives URI_ERROR_MALLOC with nothing outstanding and *dest untouched.
 * The manager here is a one-block arena: a fixed array whose cells behind the requested size are nondeterministic
 * canaries (heap objects of symbolic size are very expensive in CBMC; the requested size is still exact: a cell that is
 * not completely inside the requested bytes must keep its canary - so a size computed in bytes for the wide type fails). */
#define CM_CELLS (OUTMAX + 4)
static URI_CHAR cm_arena[CM_CELLS], cm_canary[CM_CELLS];
static size_t cm_size; static int cm_reqs, cm_live, cm_bad, cm_refuse;
static void *cm_take(size_t size, int zero) {
	int i;
	cm_reqs++;
	if (cm_refuse || cm_reqs > 1 || size > sizeof(cm_arena)) return NULL;
	cm_size = size; cm_live++;
	for (i = 0; i < CM_CELLS; i++) cm_arena[i] = (zero && (size_t)(i + 1) * sizeof(URI_CHAR) <= size) ? 0 : cm_canary[i];
	return cm_arena;
}
static void *cm_malloc(UriMemoryManager *m, size_t size) { (void)m; return cm_take(size, 0); }
static void *cm_calloc(UriMemoryManager *m, size_t n, size_t size) { (void)m; if (n != 0 && size > ((size_t)-1) / n) { cm_reqs++; return NULL; } return cm_take(n * size, 1); }
static void *cm_realloc(UriMemoryManager *m, void *p, size_t size) { (void)m; (void)p; (void)size; cm_bad = 1; return NULL; }
static void *cm_reallocarray(UriMemoryManager *m, void *p, size_t n, size_t size) { (void)m; (void)p; (void)n; (void)size; cm_bad = 1; return NULL; }
static void cm_free(UriMemoryManager *m, void *p) { (void)m; if (p != NULL) { if (p != (void *)cm_arena || cm_live != 1) cm_bad = 1; cm_live--; } }
static UriMemoryManager cmm = { cm_malloc, cm_calloc, cm_realloc, cm_reallocarray, cm_free, NULL };

void h_composemalloc(void) {
	URI_TYPE(QueryList) items[VI];
	URI_CHAR key[VI][VS + 1], val[VI][VS + 1];
	URI_CHAR out[OUTMAX + 2], *res = NULL; int required = -3, written = -3, r0, r1, r2, i, j, len;
	ND_ARR(URI_CHAR, kbuf, VI * VS); ND_ARR(URI_CHAR, vbuf, VI * VS);
	ND_ARR(URI_CHAR, canary, CM_CELLS);
	ND_ARR(unsigned char, klen, VI); ND_ARR(signed char, vlen, VI);   /* vlen -1: value NULL */
	ND(unsigned char, nitems); ND(unsigned char, spaceToPlus); ND(unsigned char, normalizeBreaks); ND(unsigned char, gj); ND(unsigned char, refuse);
	__CPROVER_assume(nitems >= 1 && nitems <= VI && spaceToPlus <= 1 && normalizeBreaks <= 1 && gj < CM_CELLS && refuse <= 1);
	for (i = 0; i < VI; i++) {
		__CPROVER_assume(klen[i] <= VS && vlen[i] >= -1 && vlen[i] <= VS);
		for (j = 0; j < VS; j++) {
			key[i][j] = (j < klen[i]) ? kbuf[i * VS + j] : 0; val[i][j] = (j < vlen[i]) ? vbuf[i * VS + j] : 0;
			__CPROVER_assume(!(j < klen[i]) || key[i][j] != 0);
			__CPROVER_assume(!(j < vlen[i]) || val[i][j] != 0);
#ifdef VW
			__CPROVER_assume(key[i][j] >= 0 && key[i][j] <= 255 && val[i][j] >= 0 && val[i][j] <= 255);
#endif
		}
		key[i][VS] = 0; val[i][VS] = 0;
		items[i].key = key[i]; items[i].value = (vlen[i] < 0) ? NULL : val[i];
		items[i].next = (i + 1 < nitems) ? &items[i + 1] : NULL;
	}
	for (i = 0; i < CM_CELLS; i++) cm_canary[i] = canary[i];
	cm_size = 0; cm_reqs = 0; cm_live = 0; cm_bad = 0; cm_refuse = refuse;
	VCOVER(nitems == VI && klen[0] == VS && vlen[VI - 1] == VS && !refuse, "VI items with full-length key and value, no refusal");
	VCOVER_END;
	r0 = URI_FUNC(ComposeQueryCharsRequiredEx)(items, &required, spaceToPlus, normalizeBreaks);
	__CPROVER_assume(r0 == URI_SUCCESS && required >= 0 && required < OUTMAX);   /* (obligation ComposeQuery.*) */
	r1 = URI_FUNC(ComposeQueryMallocExMm)(&res, items, spaceToPlus, normalizeBreaks, &cmm);
	VPOST("C13", !cm_bad && cm_reqs == 1, "ComposeQueryMalloc: one request to the supplied manager, no realloc, no foreign free");
	if (refuse) {
		VPOST("C14", r1 == URI_ERROR_MALLOC, "ComposeQueryMalloc: a refused request => URI_ERROR_MALLOC");
		VPOST("C14,C13", cm_live == 0 && res == NULL, "ComposeQueryMalloc: nothing outstanding and *dest untouched after a failure");
		return;
	}
	VPOST("C17,C14", r1 == URI_SUCCESS && res == cm_arena, "ComposeQueryMalloc succeeds when the request is granted and returns the manager's block");
	VPOST("C13", cm_live == 1, "ComposeQueryMalloc: exactly the returned string is outstanding");
	VPOST("C19,C17", cm_size >= ((size_t)required + 1) * sizeof(URI_CHAR), "ComposeQueryMalloc: the block is sized in characters (required + 1 of them)");
	VPOST("C19,C17,C13", (size_t)(gj + 1) * sizeof(URI_CHAR) <= cm_size || cm_arena[gj] == cm_canary[gj], "ComposeQueryMalloc writes nothing behind the bytes it requested");
	if (r1 != URI_SUCCESS || res == NULL) return;
	for (i = 0; i < OUTMAX + 2; i++) out[i] = (URI_CHAR)(0x55);
	r2 = URI_FUNC(ComposeQueryEx)(out, items, required + 1, &written, spaceToPlus, normalizeBreaks);
	__CPROVER_assume(r2 == URI_SUCCESS && written >= 1 && written <= required + 1);   /* (obligation ComposeQuery.*) */
	len = written - 1;
	VPOST("C17,C19", gj > len || res[gj] == out[gj], "ComposeQueryMalloc: the string is the text uriComposeQueryEx writes, terminator included");
	cm_free(&cmm, res);
	VPOST("C13", cm_live == 0 && !cm_bad, "the caller freeing the returned string leaves nothing outstanding");
}
