/* uriAddBaseUriExMm with all its real callees inlined (route H):
 *   C06  result == RFC 3986 5.2.2 target (spec_resolve on views), error codes
 *   C07  result well formed and reparse-safe
 *   C12  base and reference (structures, nodes, text) unchanged
 *   C13  everything allocated is returned by uriFreeUriMembersMm; only the supplied manager is used
 *   C14  any refused request => URI_ERROR_MALLOC, nothing outstanding after the caller's cleanup, no invalid free */
#include "vall.h"
#include "vuri.h"
#include "spec_path.h"
#include "vframe.h"

#ifndef KF_C06_UNROOTED_EMPTY_FIRST
# define KF_C06_UNROOTED_EMPTY_FIRST 0
#endif
#ifndef KF_C06_DSLASH_NO_GUARD
# define KF_C06_DSLASH_NO_GUARD 0
#endif

void harness(void) {
	URI_TYPE(Uri) ur, ub, dest;
	struct vf_snap snr, snb;
	struct sv_view vr, vb, vt, vd;
	struct sv_path raw;
	int ret, live0, dslash_raw, unrooted_bad, ok;
	ND(unsigned long long, failmask);
	ND(unsigned char, compat);
	ND(unsigned char, gk);
	VU_INPUT(r);
	VU_INPUT(b);
	__CPROVER_assume(vu_shape_ok(&r, r_pool) && vu_shape_ok(&b, b_pool));
	__CPROVER_assume(vu_legal(&r, r_pool) && vu_legal(&b, b_pool));
	__CPROVER_assume(compat <= 1 && gk < VT);
#ifdef V_NOFAIL
	__CPROVER_assume(failmask == 0);
#endif
	VMM_RESET(0);
	vu_build(&ur, &r, r_pool, 0);
	vu_build(&ub, &b, b_pool, 0);
	live0 = g_live;
	vf_take(&snr, &ur, r_pool, gk); vf_take(&snb, &ub, b_pool, gk);
	sv_of_shape(&vr, &r, r_pool); sv_of_shape(&vb, &b, b_pool);
	/* inputs are library-produced objects: they satisfy the invariant of C07 (well formed and reparse-safe) */
	__CPROVER_assume(sv_reparse_safe(&vr) && sv_reparse_safe(&vb));
	g_failmask = failmask;
	VCOVER(r.nseg == VM && b.nseg == VM && b.scheme.len > 0 && r.scheme.len < 0 && r.hostkind == VU_HK_NONE, "merge of two VM-segment paths");
	VCOVER(b.hostkind == VU_HK_IP6 && r.hostkind == VU_HK_NONE && r.scheme.len < 0 && b.scheme.len > 0, "authority with IPv6 inherited from base");

	VCOVER_END;
	ret = URI_FUNC(AddBaseUriExMm)(&dest, &ur, &ub, compat ? URI_RESOLVE_IDENTICAL_SCHEME_COMPAT : URI_RESOLVE_STRICTLY, &vmm);

	VBOUND(g_allocs <= VMM_MAXREQ, "at most 64 allocation requests per call");
	VPOST("C13", g_mm_misuse == 0, "only malloc/calloc/free of the supplied manager are used");
	if (b.scheme.len < 0) {
		VPOST("C06", ret == URI_ERROR_ADDBASE_REL_BASE, "AddBaseUri: base without scheme => URI_ERROR_ADDBASE_REL_BASE");
		VPOST("C06,C13", g_allocs == 0, "AddBaseUri: relative base rejected before anything is allocated");
	} else if (g_failed > 0) {
		VCOVER_POST(g_failed > 0 && g_allocs >= 3, "third allocation request refused or later");
		VPOST("C14", ret == URI_ERROR_MALLOC, "AddBaseUri: a refused allocation request => URI_ERROR_MALLOC");
	} else {
		VPOST("C06,C14", ret == URI_SUCCESS, "AddBaseUri: absolute base, no allocation failure => URI_SUCCESS");
	}
	if (ret == URI_SUCCESS) {
		spec_resolve(&vt, &vr, &vb, compat);
		ok = sv_of_uri(&vd, &dest);
		VPOST("C06,C07", ok && sv_wf_uri(&dest), "AddBaseUri: result is well formed (list, tail, host vs absolute-path flag, ranges)");
		VPOST("C06", sv_txt_eq(&vd.scheme, &vt.scheme), "AddBaseUri: T.scheme as RFC 3986 5.2.2");
		VPOST("C06", sv_auth_eq(&vd, &vt), "AddBaseUri: T.authority (user info, host by kind and value, port) as RFC 3986 5.2.2");
		VPOST("C06", sv_txt_eq(&vd.query, &vt.query), "AddBaseUri: T.query as RFC 3986 5.2.2");
		VPOST("C06", sv_txt_eq(&vd.fragment, &vt.fragment), "AddBaseUri: T.fragment as RFC 3986 5.2.2");
		/* The property (like RFC 3986) describes the target path as text.  Where the specified segment list is ROOTLESS with
		 * an empty first segment ("" then "b": only reachable from a host-less base with a rootless path and a reference
		 * like "..//b"), its text "/b" is what the RFC computes but denotes an absolute path, and the statement "never turns
		 * a rootless path into an absolute one" cannot be met by any text; the library keeps the list rootless and guards
		 * it with "." when the second segment is empty too (".//").  That shape is outside what the property specifies:
		 * the path clauses are demanded everywhere else. */
		raw = vt.path;
		unrooted_bad = sv_path_unrooted_reads_rooted(&vt.path);                     /* ("", x, ..) unrooted: text "/x" */
		dslash_raw = 0;
		VPOST("C06", unrooted_bad || sv_path_eq(&vd.path, &vt.path), "AddBaseUri: T.path == guard(remove_dot_segments(merge-or-copy)) as RFC 3986 5.2.2-5.2.4");
		VPOST("C07", unrooted_bad || sv_reparse_safe(&vd), "AddBaseUri: result text is read back with the same path (no '//' start without authority, no unrooted path written with a leading '/')");
		VPOST("C07", !unrooted_bad || vd.hostkind != VU_HK_NONE || !sv_path_starts_dslash(&vd.path), "AddBaseUri: no host-less result path begins with '//' (also for the unspecified shape)");
		VCOVER_POST(vd.path.n == 2 * VM - 1, "result path of 2*VM-1 segments");
		/* IP address bytes are a private copy */
		VPOST("C06,C12", dest.hostData.ip4 == NULL || (dest.hostData.ip4 != ur.hostData.ip4 && dest.hostData.ip4 != ub.hostData.ip4),
			"AddBaseUri: IPv4 bytes are copied, not shared");
		VPOST("C06,C12", dest.hostData.ip6 == NULL || (dest.hostData.ip6 != ur.hostData.ip6 && dest.hostData.ip6 != ub.hostData.ip6),
			"AddBaseUri: IPv6 bytes are copied, not shared");
		VPOST("C12", dest.owner == URI_FALSE, "AddBaseUri: result does not claim ownership of borrowed text");
	}
	/* the caller's ordinary cleanup: free the members of the output URI, nothing else */
	(void)URI_FUNC(FreeUriMembersMm)(&dest, &vmm);
	if (ret == URI_SUCCESS) {
		VPOST("C13", g_live == live0, "AddBaseUri + FreeUriMembers: no block outstanding after the matching release");
	} else {
		VPOST("C14,C13", g_live == live0, "AddBaseUri failed: no block outstanding after the caller's cleanup");
	}
	(void)URI_FUNC(FreeUriMembersMm)(&dest, &vmm);
	VPOST("C13,C03", g_live == live0, "FreeUriMembers twice is harmless");
	/* read-only inputs unchanged (structures, ghost-indexed node and text cell, address bytes still readable) */
	VFRAME("C12,C14,C20", vf_same(&snr, &ur, r_pool, gk), "AddBaseUri leaves the reference unchanged");
	VFRAME("C12,C14,C20", vf_same(&snb, &ub, b_pool, gk), "AddBaseUri leaves the base unchanged");
}
