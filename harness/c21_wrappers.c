/* Wrappers.*.H - contracts of the thin public wrappers (route H, loop-free, every argument symbolic => complete):
 * each wrapper calls exactly the documented callee, exactly once, with exactly its own arguments plus the documented
 * defaults (strict resolution, the full mask, space<->plus and break defaults, the default memory manager = NULL,
 * `afterLast == NULL` meaning NUL-terminated), hands the callee's result back unchanged, and touches nothing itself.
 * The callees are replaced by logging stubs (stubs/wrapper_callees.c); their own behaviour is decided by their own
 * obligations.  The wrappers' bodies are the real ones from the staged tree. */
#include "vh.h"
#include "vall.h"
#include "../stubs/wrapper_log.h"

extern URI_CHAR *g_wc_retp;
#define NTXT 16

#define P(k, j) (g_wc_p[k][j])
#define I(k, j) (g_wc_i[k][j])
#define ONE_CALL(id) (g_wc_n == 1 && g_wc_id[0] == (id))
#define NO_CALL() (g_wc_n == 0)
/* "strlen(text), then the callee": one or more strlen calls on the text (how often the length is taken is not the
 * wrapper's contract), followed by exactly one call of the callee, which is entry L of the log */
#define L (g_wc_n - 1)
#define STRLEN_THEN(id, txt) (g_wc_n >= 2 && g_wc_n <= WC_MAX && g_wc_id[L] == (id) \
	&& g_wc_id[0] == WC_STRLEN && P(0,0) == (txt) && (L <= 1 || (g_wc_id[1] == WC_STRLEN && P(1,0) == (txt))) && (L <= 2 || (g_wc_id[2] == WC_STRLEN && P(2,0) == (txt))))

void harness(void) {
	ND(unsigned char, which);
	ND(int, ret); ND(size_t, len); ND(unsigned char, p_null); ND(int, i0); ND(unsigned int, u0); ND(unsigned char, b0); ND(unsigned char, b1);
	ND(unsigned char, maskw); ND(unsigned int, maskv); ND(unsigned char, retsel);
	URI_TYPE(Uri) ua, ub, uc; URI_TYPE(ParserState) st; URI_TYPE(QueryList) ql, *qlp = NULL; URI_CHAR *sp = NULL;
	URI_CHAR text[NTXT], out[NTXT];
	const URI_CHAR *ep = NULL; int n1 = 0, n2 = 0;
	/* every pointer argument is either NULL or the address of a harness object, independently (bits of p_null) */
	URI_TYPE(Uri) *pa = (p_null & 1) ? NULL : &ua; const URI_TYPE(Uri) *pb = (p_null & 2) ? NULL : &ub, *pc = (p_null & 4) ? NULL : &uc;
	URI_TYPE(ParserState) *pst = (p_null & 1) ? NULL : &st;
	const URI_CHAR *ptext = (p_null & 8) ? NULL : text; const URI_CHAR *pafter; URI_CHAR *pout = (p_null & 16) ? NULL : out;
	const URI_CHAR **pep = (p_null & 32) ? NULL : &ep; int *pn1 = (p_null & 64) ? NULL : &n1, *pn2 = (p_null & 128) ? NULL : &n2;
	const URI_TYPE(QueryList) *pql = (p_null & 2) ? NULL : &ql; URI_TYPE(QueryList) **pqlp = (p_null & 1) ? NULL : &qlp; URI_CHAR **psp = (p_null & 1) ? NULL : &sp;
	int r = 0; const URI_CHAR *rp = NULL; unsigned int ur = 0;
	UriBool t0 = b0 ? URI_TRUE : URI_FALSE, t1 = b1 ? URI_TRUE : URI_FALSE;

	__CPROVER_assume(len < NTXT);
	__CPROVER_assume(i0 >= 0 && i0 < NTXT);
	pafter = (p_null & 16) ? NULL : text + i0;
	g_wc_n = 0; g_wc_ret = ret; g_wc_len = len; g_wc_retp = retsel ? out + (retsel % NTXT) : NULL;
	g_wc_mask_written = maskw & 1; g_wc_mask_value = maskv; g_wc_mask_entry = 0xdeadu;
	VCOVER(which == 7 && ptext != NULL && len > 3, "NUL-terminated text of more than 3 characters");
	VCOVER(which == 9 && pafter == NULL && ptext != NULL, "explicit range with afterLast == NULL");
	VCOVER(p_null == 0, "all pointer arguments non-NULL");
	VCOVER(p_null == 255, "all pointer arguments NULL");
	VCOVER(ret != 0, "callee reports an error");
	VCOVER_END;

	switch (which) {
	case 0: r = URI_FUNC(AddBaseUri)(pa, pb, pc);
		VPOST("C06,C13", ONE_CALL(WC_ADDBASE) && P(0,0) == pa && P(0,1) == pb && P(0,2) == pc && I(0,0) == URI_RESOLVE_STRICTLY && P(0,3) == NULL && r == ret,
			"uriAddBaseUri == uriAddBaseUriExMm(dest, rel, base, URI_RESOLVE_STRICTLY, default manager), result handed back"); break;
	case 1: r = URI_FUNC(AddBaseUriEx)(pa, pb, pc, (UriResolutionOptions)u0);
		VPOST("C06,C13", ONE_CALL(WC_ADDBASE) && P(0,0) == pa && P(0,1) == pb && P(0,2) == pc && I(0,0) == (long long)(UriResolutionOptions)u0 && P(0,3) == NULL && r == ret,
			"uriAddBaseUriEx == uriAddBaseUriExMm(dest, rel, base, options, default manager), result handed back"); break;
	case 2: r = URI_FUNC(RemoveBaseUri)(pa, pb, pc, t0);
		VPOST("C10,C13", ONE_CALL(WC_REMOVEBASE) && P(0,0) == pa && P(0,1) == pb && P(0,2) == pc && I(0,0) == t0 && P(0,3) == NULL && r == ret,
			"uriRemoveBaseUri == uriRemoveBaseUriMm(dest, source, base, domainRootMode, default manager), result handed back"); break;
	case 3: r = URI_FUNC(NormalizeSyntax)(pa);
		VPOST("C08,C13", ONE_CALL(WC_NORMALIZE) && P(0,0) == pa && (I(0,0) & 0x3f) == 0x3f && P(0,1) == NULL && r == ret,   /* the six defined component bits; further bits mean nothing to the engine */
			"uriNormalizeSyntax == uriNormalizeSyntaxExMm(uri, every component bit, default manager), result handed back"); break;
	case 4: r = URI_FUNC(NormalizeSyntaxEx)(pa, u0);
		VPOST("C08,C13", ONE_CALL(WC_NORMALIZE) && P(0,0) == pa && I(0,0) == (long long)u0 && P(0,1) == NULL && r == ret,
			"uriNormalizeSyntaxEx == uriNormalizeSyntaxExMm(uri, mask, default manager), result handed back"); break;
	case 5: ur = URI_FUNC(NormalizeSyntaxMaskRequired)(pb);
		VPOST("C08", ONE_CALL(WC_MASKREQ) && P(0,0) == pb && P(0,1) != NULL && g_wc_mask_entry == URI_NORMALIZED
			&& ur == ((maskw & 1) ? maskv : (unsigned int)URI_NORMALIZED),
			"uriNormalizeSyntaxMaskRequired returns the mask uriNormalizeSyntaxMaskRequiredEx reports (URI_NORMALIZED if it reports none)"); break;
	case 6: r = URI_FUNC(MakeOwner)(pa);
		VPOST("C12,C13", ONE_CALL(WC_MAKEOWNER) && P(0,0) == pa && P(0,1) == NULL && r == ret, "uriMakeOwner == uriMakeOwnerMm(uri, default manager)"); break;
	case 7: r = URI_FUNC(ParseUri)(pst, ptext);
		if (pst == NULL || ptext == NULL) VPOST("C01", NO_CALL() && r == URI_ERROR_NULL, "uriParseUri: NULL argument => URI_ERROR_NULL, nothing called");
		else VPOST("C01,C13", STRLEN_THEN(WC_PARSE, ptext) && P(L,0) == pst && P(L,1) == ptext
			&& P(L,2) == ptext + len && P(L,3) == NULL && r == ret, "uriParseUri == uriParseUriExMm(state, text, text + strlen(text), default manager)");
		break;
	case 8: r = URI_FUNC(ParseUriEx)(pst, ptext, pafter);
		VPOST("C01,C13", ONE_CALL(WC_PARSE) && P(0,0) == pst && P(0,1) == ptext && P(0,2) == pafter && P(0,3) == NULL && r == ret,
			"uriParseUriEx == uriParseUriExMm(state, first, afterLast, default manager)"); break;
	case 9: r = URI_FUNC(ParseSingleUriEx)(pa, ptext, pafter, pep);
		if (pafter == NULL && ptext != NULL) VPOST("C01,C13", STRLEN_THEN(WC_PARSESINGLE, ptext) && P(L,0) == pa
			&& P(L,1) == ptext && P(L,2) == ptext + len && P(L,3) == pep && P(L,4) == NULL && r == ret,
			"uriParseSingleUriEx with afterLast == NULL == uriParseSingleUriExMm(uri, first, first + strlen(first), errorPos, default manager)");
		else VPOST("C01,C13", ONE_CALL(WC_PARSESINGLE) && P(0,0) == pa && P(0,1) == ptext && P(0,2) == pafter && P(0,3) == pep && P(0,4) == NULL && r == ret,
			"uriParseSingleUriEx == uriParseSingleUriExMm(uri, first, afterLast, errorPos, default manager)");
		break;
	case 10: r = URI_FUNC(ParseSingleUri)(pa, ptext, pep);
		if (ptext != NULL) VPOST("C01,C13", STRLEN_THEN(WC_PARSESINGLE, ptext) && P(L,0) == pa
			&& P(L,1) == ptext && P(L,2) == ptext + len && P(L,3) == pep && P(L,4) == NULL && r == ret,
			"uriParseSingleUri == uriParseSingleUriExMm(uri, text, text + strlen(text), errorPos, default manager)");
		else VPOST("C01", ONE_CALL(WC_PARSESINGLE) && P(0,0) == pa && P(0,1) == NULL && P(0,2) == NULL && P(0,3) == pep && r == ret,
			"uriParseSingleUri with NULL text hands NULL on (rejected by uriParseSingleUriExMm)");
		break;
	case 11: URI_FUNC(FreeUriMembers)(pa);
		VPOST("C13", ONE_CALL(WC_FREEMEMBERS) && P(0,0) == pa && P(0,1) == NULL, "uriFreeUriMembers == uriFreeUriMembersMm(uri, default manager)"); break;
	case 12: rp = URI_FUNC(Escape)(ptext, pout, t0, t1);
		VPOST("C16", ONE_CALL(WC_ESCAPE) && P(0,0) == ptext && P(0,1) == NULL && P(0,2) == pout && I(0,0) == t0 && I(0,1) == t1 && rp == g_wc_retp,
			"uriEscape == uriEscapeEx(in, NULL = NUL-terminated, out, spaceToPlus, normalizeBreaks), pointer handed back"); break;
	case 13: rp = URI_FUNC(UnescapeInPlace)(pout);
		VPOST("C16", ONE_CALL(WC_UNESCAPE) && P(0,0) == pout && I(0,0) == URI_FALSE && I(0,1) == URI_BR_DONT_TOUCH && rp == g_wc_retp,
			"uriUnescapeInPlace == uriUnescapeInPlaceEx(inout, no plus-to-space, breaks untouched), pointer handed back"); break;
	case 14: case 15: {
		UriBool s2p = which == 14 ? URI_TRUE : t0, nb = which == 14 ? URI_TRUE : t1;
		r = which == 14 ? URI_FUNC(ComposeQueryCharsRequired)(pql, pn1) : URI_FUNC(ComposeQueryCharsRequiredEx)(pql, pn1, t0, t1);
		if (pql == NULL || pn1 == NULL) VPOST("C17", NO_CALL() && r == URI_ERROR_NULL, "uriComposeQueryCharsRequired[Ex]: NULL argument => URI_ERROR_NULL, nothing called");
		else VPOST("C17", ONE_CALL(WC_COMPOSEENGINE) && P(0,0) == NULL && P(0,1) == pql && I(0,0) == 0 && P(0,2) == NULL && P(0,3) == pn1 && I(0,1) == s2p && I(0,2) == nb && r == ret,
			"uriComposeQueryCharsRequired[Ex] == engine in measuring mode (no destination) with the given / default (TRUE, TRUE) options");
		break; }
	case 16: case 17: {
		UriBool s2p = which == 16 ? URI_TRUE : t0, nb = which == 16 ? URI_TRUE : t1; int mc = (int)u0;
		r = which == 16 ? URI_FUNC(ComposeQuery)(pout, pql, mc, pn1) : URI_FUNC(ComposeQueryEx)(pout, pql, mc, pn1, t0, t1);
		if (pout == NULL || pql == NULL) VPOST("C17", NO_CALL() && r == URI_ERROR_NULL, "uriComposeQuery[Ex]: NULL destination or list => URI_ERROR_NULL, nothing called");
		else if (mc < 1) VPOST("C17", NO_CALL() && r == URI_ERROR_OUTPUT_TOO_LARGE, "uriComposeQuery[Ex]: maxChars < 1 => URI_ERROR_OUTPUT_TOO_LARGE, nothing called, nothing written");
		else VPOST("C17", ONE_CALL(WC_COMPOSEENGINE) && P(0,0) == pout && P(0,1) == pql && I(0,0) == mc && P(0,2) == pn1 && P(0,3) == NULL && I(0,1) == s2p && I(0,2) == nb && r == ret,
			"uriComposeQuery[Ex] == engine in writing mode with maxChars and the given / default (TRUE, TRUE) options");
		break; }
	case 18: r = URI_FUNC(ComposeQueryMalloc)(psp, pql);
		VPOST("C17,C13", ONE_CALL(WC_COMPOSEMALLOC) && P(0,0) == psp && P(0,1) == pql && I(0,0) == URI_TRUE && I(0,1) == URI_TRUE && P(0,2) == NULL && r == ret,
			"uriComposeQueryMalloc == uriComposeQueryMallocExMm(dest, list, TRUE, TRUE, default manager)"); break;
	case 19: r = URI_FUNC(ComposeQueryMallocEx)(psp, pql, t0, t1);
		VPOST("C17,C13", ONE_CALL(WC_COMPOSEMALLOC) && P(0,0) == psp && P(0,1) == pql && I(0,0) == t0 && I(0,1) == t1 && P(0,2) == NULL && r == ret,
			"uriComposeQueryMallocEx == uriComposeQueryMallocExMm(dest, list, options, default manager)"); break;
	case 20: r = URI_FUNC(DissectQueryMalloc)(pqlp, pn2, ptext, pafter);
		VPOST("C17,C13", ONE_CALL(WC_DISSECT) && P(0,0) == pqlp && P(0,1) == pn2 && P(0,2) == ptext && P(0,3) == pafter && I(0,0) == URI_TRUE && I(0,1) == URI_BR_DONT_TOUCH && P(0,4) == NULL && r == ret,
			"uriDissectQueryMalloc == uriDissectQueryMallocExMm(dest, count, first, afterLast, plus-to-space, breaks untouched, default manager)"); break;
	case 21: r = URI_FUNC(DissectQueryMallocEx)(pqlp, pn2, ptext, pafter, t0, (UriBreakConversion)(u0 % 4));
		VPOST("C17,C13", ONE_CALL(WC_DISSECT) && P(0,0) == pqlp && P(0,1) == pn2 && P(0,2) == ptext && P(0,3) == pafter && I(0,0) == t0 && I(0,1) == (long long)(UriBreakConversion)(u0 % 4) && P(0,4) == NULL && r == ret,
			"uriDissectQueryMallocEx == uriDissectQueryMallocExMm(dest, count, first, afterLast, options, default manager)"); break;
	case 22: URI_FUNC(FreeQueryList)((URI_TYPE(QueryList) *)pql);
		VPOST("C13,C17", ONE_CALL(WC_FREEQUERYLIST) && P(0,0) == pql && P(0,1) == NULL, "uriFreeQueryList == uriFreeQueryListMm(list, default manager)"); break;
	default: break;
	}
	/* frame: a wrapper writes nothing itself (the stubs write nothing either, so every output object still has its entry value) */
	VFRAME("C12,C20", ep == NULL && n1 == 0 && n2 == 0 && qlp == NULL && sp == NULL, "wrappers write to no output object themselves");
}
