/* vframe.h - read-only snapshot of a URI object for frame conditions in routes H/N (DESIGN C12):
 * the structure itself, the ghost-indexed path node, the ghost-indexed text cell and the address bytes.
 * Because the index is nondeterministic, "unchanged at the index" is "bit-for-bit unchanged" for the whole object. */
#ifndef VFRAME_H
#define VFRAME_H
#include "vuri.h"
struct vf_snap {
	URI_TYPE(Uri) u;
	const URI_TYPE(PathSegment) *node; URI_TYPE(PathSegment) nodeval;
	URI_CHAR cell;
	unsigned char ip[16];
};
static int vf_same_struct(const URI_TYPE(Uri) *x, const URI_TYPE(Uri) *y) {
	return x->scheme.first == y->scheme.first && x->scheme.afterLast == y->scheme.afterLast
		&& x->userInfo.first == y->userInfo.first && x->userInfo.afterLast == y->userInfo.afterLast
		&& x->hostText.first == y->hostText.first && x->hostText.afterLast == y->hostText.afterLast
		&& x->hostData.ip4 == y->hostData.ip4 && x->hostData.ip6 == y->hostData.ip6
		&& x->hostData.ipFuture.first == y->hostData.ipFuture.first && x->hostData.ipFuture.afterLast == y->hostData.ipFuture.afterLast
		&& x->portText.first == y->portText.first && x->portText.afterLast == y->portText.afterLast
		&& x->pathHead == y->pathHead && x->pathTail == y->pathTail
		&& x->query.first == y->query.first && x->query.afterLast == y->query.afterLast
		&& x->fragment.first == y->fragment.first && x->fragment.afterLast == y->fragment.afterLast
		&& x->absolutePath == y->absolutePath && x->owner == y->owner && x->reserved == y->reserved;
}
static void vf_take(struct vf_snap *s, const URI_TYPE(Uri) *u, const URI_CHAR *pool, int gk) {
	const URI_TYPE(PathSegment) *w = u->pathHead;
	int i;
	s->u = *u; s->node = NULL; s->cell = pool[gk];
	for (i = 0; i < VM; i++) if (w != NULL) { if (i == gk) { s->node = w; s->nodeval = *w; } w = w->next; }
	for (i = 0; i < 16; i++) s->ip[i] = 0;
	if (u->hostData.ip4 != NULL) for (i = 0; i < 4; i++) s->ip[i] = u->hostData.ip4->data[i];
	if (u->hostData.ip6 != NULL) for (i = 0; i < 16; i++) s->ip[i] = u->hostData.ip6->data[i];
}
/* `reservedMayChange`: uriRemoveDotSegments uses PathSegment.reserved of the list it *owns* as a back link; for a
 * read-only input nothing may change, reserved included */
static int vf_same(const struct vf_snap *s, const URI_TYPE(Uri) *u, const URI_CHAR *pool, int gk) {
	int i;
	if (!vf_same_struct(&s->u, u)) return 0;
	if (pool[gk] != s->cell) return 0;
	if (s->node != NULL && !(s->node->next == s->nodeval.next && s->node->text.first == s->nodeval.text.first
			&& s->node->text.afterLast == s->nodeval.text.afterLast && s->node->reserved == s->nodeval.reserved)) return 0;
	if (u->hostData.ip4 != NULL) for (i = 0; i < 4; i++) if (s->ip[i] != u->hostData.ip4->data[i]) return 0;
	if (u->hostData.ip6 != NULL) for (i = 0; i < 16; i++) if (s->ip[i] != u->hostData.ip6->data[i]) return 0;
	return 1;
}
#endif
