/* route-D harnesses for src/UriCommon.c: arguments are left nondeterministic, the contract's requires shape them */
#include "vtypes.h"
#include "UriCommon.contracts.h"
#include "UriCommon.c"

size_t nondet_size(void);
void h_CompareRange(void) {
	const URI_TYPE(TextRange) *a, *b;
	g_lenA = nondet_size(); g_lenB = nondet_size();
	URI_FUNC(CompareRange)(a, b);
}
