/* uriParseIPv6address2 against the RFC 3986 IPv6address recogniser (route H, real body, loops unwound):
 *   C01  accept/reject identical; error position within the literal
 *   C02  the 16 address bytes equal the value written; host text ends in front of ']'
 *   C03  reads only [first, afterLast): the text is a heap block of exactly n characters; failure leaves nothing allocated */
#include "vall.h"
#include "vmm.h"
#include "spec_ip.h"
#ifndef V_K
# define V_K 8
#endif
#ifndef V_IP6_MODE
# define V_IP6_MODE 0
#endif
static void check_one(const URI_CHAR *head, size_t n) {
	URI_TYPE(Uri) u; URI_TYPE(ParserState) st;
	unsigned char want[16]; unsigned long used; const URI_CHAR *r; URI_CHAR *text; int i, same;
	text = malloc((n ? n : 1) * sizeof(URI_CHAR));
	__CPROVER_assume(text != NULL);
	for (i = 0; i < V_K; i++) if ((size_t)i < n) text[i] = head[i];
	memset(&u, 0, sizeof(u));
	VMM_RESET(0);
	u.hostData.ip6 = vmm_give(sizeof(UriIp6));     /* as uriParseIpLit2 leaves it: block allocated, content indeterminate */
	u.hostText.first = text;
	st.uri = &u; st.errorCode = 0; st.errorPos = NULL; st.reserved = NULL;
	VCOVER(n == V_K && head[0] == _UT(':') && head[1] == _UT(':') && head[V_K - 1] == _UT(']'), "a literal of V_K characters starting with '::'");
#if V_IP6_MODE == 2
	VCOVER(n == 16 && head[0] == _UT(':') && head[1] == _UT(':') && head[3] == _UT(':') && head[13] == _UT(':') && head[15] == _UT(']'), "'::' followed by seven one-digit groups");
#endif
	VCOVER_END;
	r = URI_FUNC(ParseIPv6address2)(&st, text, text + n, &vmm);
	used = spec_ip6(text, n, want);
	VPOST("C01", (r != NULL) == (used != 0), "ParseIPv6address2 accepts exactly the texts IPv6address \"]\" of RFC 3986");
	if (r != NULL) {
		VPOST("C01,C02", r == text + used, "ParseIPv6address2 returns the position behind ']'");
		same = 1; for (i = 0; i < 16; i++) if (u.hostData.ip6->data[i] != want[i]) same = 0;
		VPOST("C02", same, "ParseIPv6address2: the 16 address bytes equal the value written in the text");
		VPOST("C02", u.hostText.afterLast == r - 1, "ParseIPv6address2: host text ends in front of ']'");
		VPOST("C13", g_live == 1, "ParseIPv6address2 allocates nothing itself");
		/* the may-change set the Marks.* obligations assume for this scanner (M_ParseIPv6address2 = {host end}) */
		VPOST("C02", u.scheme.first == NULL && u.scheme.afterLast == NULL && u.userInfo.first == NULL && u.userInfo.afterLast == NULL
			&& u.hostText.first == text && u.portText.first == NULL && u.portText.afterLast == NULL && u.query.first == NULL && u.query.afterLast == NULL
			&& u.fragment.first == NULL && u.fragment.afterLast == NULL && u.hostData.ipFuture.first == NULL && u.hostData.ipFuture.afterLast == NULL
			&& u.absolutePath == URI_FALSE, "ParseIPv6address2 changes no recorded mark except the host end");
	} else {
		VPOST("C01", st.errorCode == URI_ERROR_SYNTAX && st.errorPos != NULL && st.errorPos >= text && st.errorPos <= text + n,
			"ParseIPv6address2: syntax error with a position inside the literal");
		VPOST("C03,C13", g_live == 0 && u.hostData.ip6 == NULL, "ParseIPv6address2 failed: nothing remains allocated");
	}
}

void harness(void) {
	int i;
	ND_ARR(URI_CHAR, head, V_K);
	ND(size_t, n);
	__CPROVER_assume(n <= V_K);
#if V_IP6_MODE == 1
	/* slice of the input space: "::" followed by digits, dots and ']' only - the embedded-IPv4 tail, which needs 9..18
	 * characters and is out of reach of the unrestricted obligation's bound */
	__CPROVER_assume(n >= 2 && head[0] == _UT(':') && head[1] == _UT(':'));
	for (i = 2; i < V_K; i++) __CPROVER_assume((head[i] >= _UT('0') && head[i] <= _UT('9')) || head[i] == _UT('.') || head[i] == _UT(']'));
#endif
#if V_IP6_MODE == 2
	/* slice of the input space: group placement in LONG literals - only the digits 1, 2, a, F, the colon and ']'
	 * (six symbols), up to V_K = 17 characters: reaches '::' followed by seven groups, seven groups followed by '::',
	 * and the eight-group form with one-digit groups, all out of reach of the unrestricted obligation's bound */
	for (i = 0; i < V_K; i++) __CPROVER_assume(head[i] == _UT('1') || head[i] == _UT('2') || head[i] == _UT('a') || head[i] == _UT('F') || head[i] == _UT(':') || head[i] == _UT(']'));
#endif
	check_one(head, n);
}

#if V_IP6_MODE == 3
/* enumerated group layouts of LONG literals (bounded stand-in of the weakest kind: constant texts run through the verifier
 * against the reference recogniser, with all memory-safety checks): p groups, '::', q groups for every p + q <= 8, and the
 * eight-group form, with one-digit and with four-digit groups (all digits distinct, so a misplaced or dropped group shows) */
static URI_CHAR lay_digit(int d) { const char *hx = "123456789abcdefABCDEF0"; return (URI_CHAR)hx[d % 22]; }
void h_layouts(void) {
	int p, q, w, i, j;
	for (w = 1; w <= 4; w += 3) for (p = 0; p <= 8; p++) for (q = 0; q <= 8 - p; q++) {
		URI_CHAR buf[48]; size_t n = 0; int d = 0, zip = !(p == 8);
		for (i = 0; i < p; i++) { if (i) buf[n++] = _UT(':'); for (j = 0; j < w; j++) buf[n++] = lay_digit(d++); }
		if (zip) { buf[n++] = _UT(':'); buf[n++] = _UT(':'); }
		for (i = 0; i < q; i++) { if (i) buf[n++] = _UT(':'); for (j = 0; j < w; j++) buf[n++] = lay_digit(d++); }
		buf[n++] = _UT(']');
		check_one(buf, n);
	}
}
#endif
