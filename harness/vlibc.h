/* vlibc.h - models of the C library functions for which CBMC 6.11 ships no body (wide-character string functions).
 * They are the assumed libc contract of DESIGN section 6 in executable form; natively (replay) the real libc is used. */
#ifndef VLIBC_H
#define VLIBC_H
#include <stddef.h>
#include <wchar.h>
#ifndef VREPLAY
int wcsncmp(const wchar_t *a, const wchar_t *b, size_t n) {
	size_t i;
	for (i = 0; i < n; i++) {
		if (a[i] != b[i]) return a[i] < b[i] ? -1 : 1;
		if (a[i] == 0) return 0;
	}
	return 0;
}
size_t wcslen(const wchar_t *s) {
	size_t n = 0;
	while (s[n] != 0) n++;
	return n;
}
#endif
#endif
