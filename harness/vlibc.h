/* vlibc.h - models of the C library functions for which CBMC 6.11 ships no body (wide-character string functions).
 * They are the assumed libc contract of DESIGN section 6 in executable form; natively (replay) the real libc is used. */
#ifndef VLIBC_H
#define VLIBC_H
#include <stddef.h>
#include <wchar.h>
#ifndef VREPLAY
int wcsncmp(const wchar_t *a, const wchar_t *b, size_t n) {
	size_t i;
	for (i = 0; i < n; i++) {
		if (a[i] != b[i]) return a[i] < b[i] ? -1 : 1;
		if (a[i] == 0) return 0;
	}
	return 0;
}
size_t wcslen(const wchar_t *s) {
	size_t n = 0;
	while (s[n] != 0) n++;
	return n;
}
# if defined(VSTUB_MEMCPY) && VSTUB_MEMCPY == 2
/* check-only memcpy: asserts that the whole destination slice is writable and the whole source slice readable and
 * copies nothing (sound for callers that never read the destination back - uriToStringEngine does not; DESIGN C05) */
void *memcpy(void *dst, const void *src, size_t n) {
	__CPROVER_assert(n == 0 || __CPROVER_w_ok(dst, n), "memcpy: destination slice writable (no write beyond the buffer)");
	__CPROVER_assert(n == 0 || __CPROVER_r_ok(src, n), "memcpy: source slice readable");
	return dst;
}
# elif defined(VSTUB_MEMCPY)
/* element-wise memcpy (CBMC's built-in model is expensive for symbolic sizes).  Every memcpy in the library copies
 * whole objects or whole characters, so the size must be a multiple of the element size: V_MEMCPY_ELEM (default: the
 * character type of the pass); a size that is not (e.g. `n` instead of `n * sizeof(URI_CHAR)`) fails the assertion.
 * bound: memcpy.* in the unwindset */
#  ifndef V_MEMCPY_ELEM
#   ifdef VW
#    define V_MEMCPY_ELEM wchar_t
#   else
#    define V_MEMCPY_ELEM char
#   endif
#  endif
void *memcpy(void *dst, const void *src, size_t n) {
	size_t i;
	__CPROVER_assert(n % sizeof(V_MEMCPY_ELEM) == 0, "memcpy: size is a whole number of elements");
	for (i = 0; i < n / sizeof(V_MEMCPY_ELEM); i++) ((V_MEMCPY_ELEM *)dst)[i] = ((const V_MEMCPY_ELEM *)src)[i];
	return dst;
}
# endif
#endif
#endif
