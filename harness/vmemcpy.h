/* vmemcpy.h - harness-side memcpy (included by vall.h *after* the library sources so that the library's types are known).
 * VSTUB_MEMCPY == 2: check-only: asserts that the whole destination slice is writable and the whole source slice readable
 *   and copies nothing (sound for callers that never read the destination back - uriToStringEngine does not; DESIGN C05).
 * VSTUB_MEMCPY == 1: element-wise copy.  Every memcpy in the library copies whole characters or one whole Uri structure,
 *   so the size must be a multiple of sizeof(URI_CHAR); a size that is not (`n` instead of `n * sizeof(URI_CHAR)`)
 *   fails the assertion.  bound: memcpy.* in the unwindset.
 * VSTUB_MEMCPY == 3: exactly one Uri structure, as a structure assignment (byte-wise copies of pointer members are
 *   prohibitively expensive in CBMC; mixing both kinds in one stub makes every text copy pay for the structure case).
 * Natively (replay) the real memcpy is used. */
#ifndef VMEMCPY_H
#define VMEMCPY_H
#if !defined(VREPLAY) && defined(VSTUB_MEMCPY)
# if VSTUB_MEMCPY == 2
size_t nondet_vmemcpy_index(void);
void *memcpy(void *dst, const void *src, size_t n) {
	__CPROVER_assert(n == 0 || __CPROVER_w_ok(dst, n), "memcpy: destination slice writable (no write beyond the buffer)");
	/* source readable: one read at a nondeterministic character index of the slice (a real dereference, checked by CBMC's
	 * pointer checks; in the W pass the library's wide string literals are staged as arrays, see vlib/stage.py) */
	{ size_t k_ = nondet_vmemcpy_index(); if (k_ < n / sizeof(URI_CHAR)) { volatile URI_CHAR c_ = ((const URI_CHAR *)src)[k_]; (void)c_; } }
	__CPROVER_assert(n % sizeof(URI_CHAR) == 0, "memcpy: size is a whole number of characters");
	return dst;
}
# elif VSTUB_MEMCPY == 3
/* whole-structure copy only (uriNormalizeSyntaxMaskRequiredEx clones the Uri structure; nothing else is copied there) */
void *memcpy(void *dst, const void *src, size_t n) {
	__CPROVER_assert(n == sizeof(URI_TYPE(Uri)), "memcpy: exactly one Uri structure is copied");
	*(URI_TYPE(Uri) *)dst = *(const URI_TYPE(Uri) *)src;
	return dst;
}
# else
void *memcpy(void *dst, const void *src, size_t n) {
	size_t i;
	__CPROVER_assert(n % sizeof(URI_CHAR) == 0, "memcpy: size is a whole number of characters");
	for (i = 0; i < n / sizeof(URI_CHAR); i++) {
		URI_CHAR c_ = ((const URI_CHAR *)src)[i];
		((URI_CHAR *)dst)[i] = c_;
	}
	return dst;
}
# endif
#endif
#endif
