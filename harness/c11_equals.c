/* C11: uriEqualsUri(a,b) == TRUE  <=>  view(a) == view(b), component by component; NULL handling; empty frame.
 * Route H: real uriEqualsUri + real uriCompareRange (inlined, verified in place) + CBMC's strncmp/wcsncmp/memcmp,
 * on two symbolic well-formed URIs with <= VM segments and <= VL characters per component. */
#include "vh.h"
#include "vall.h"
#include "vuri.h"

#ifndef KF_C11_ABSPATH_WITH_SCHEME
# define KF_C11_ABSPATH_WITH_SCHEME 0
#endif

static int spec_equal(const struct vu_shape *a, const URI_CHAR *pa, const struct vu_shape *b, const URI_CHAR *pb, int skipAbs) {
	int i;
	if (!vu_rng_eq(&a->scheme, pa, &b->scheme, pb)) return 0;
	if (!skipAbs && a->absolutePath != b->absolutePath) return 0;
	if (!vu_rng_eq(&a->userInfo, pa, &b->userInfo, pb)) return 0;
	if (a->hostkind != b->hostkind) return 0;
	if (a->hostkind == VU_HK_IP4) { for (i = 0; i < 4; i++) if (a->ip[i] != b->ip[i]) return 0; }
	else if (a->hostkind == VU_HK_IP6) { for (i = 0; i < 16; i++) if (a->ip[i] != b->ip[i]) return 0; }
	else if (!vu_rng_eq(&a->hostText, pa, &b->hostText, pb)) return 0;   /* absent / reg-name / IPvFuture: by text */
	if (!vu_rng_eq(&a->port, pa, &b->port, pb)) return 0;
	if (a->nseg != b->nseg) return 0;
	for (i = 0; i < VM; i++) if (i < a->nseg && !vu_rng_eq(&a->seg[i], pa, &b->seg[i], pb)) return 0;
	if (!vu_rng_eq(&a->query, pa, &b->query, pb)) return 0;
	if (!vu_rng_eq(&a->fragment, pa, &b->fragment, pb)) return 0;
	return 1;
}

static int same_struct(const URI_TYPE(Uri) *x, const URI_TYPE(Uri) *y) {
	return x->scheme.first == y->scheme.first && x->scheme.afterLast == y->scheme.afterLast
		&& x->userInfo.first == y->userInfo.first && x->userInfo.afterLast == y->userInfo.afterLast
		&& x->hostText.first == y->hostText.first && x->hostText.afterLast == y->hostText.afterLast
		&& x->hostData.ip4 == y->hostData.ip4 && x->hostData.ip6 == y->hostData.ip6
		&& x->hostData.ipFuture.first == y->hostData.ipFuture.first && x->hostData.ipFuture.afterLast == y->hostData.ipFuture.afterLast
		&& x->portText.first == y->portText.first && x->portText.afterLast == y->portText.afterLast
		&& x->pathHead == y->pathHead && x->pathTail == y->pathTail
		&& x->query.first == y->query.first && x->query.afterLast == y->query.afterLast
		&& x->fragment.first == y->fragment.first && x->fragment.afterLast == y->fragment.afterLast
		&& x->absolutePath == y->absolutePath && x->owner == y->owner && x->reserved == y->reserved;
}

void harness(void) {
	URI_TYPE(Uri) ua, ub, sa, sb;
	URI_TYPE(PathSegment) na, nb; const URI_TYPE(PathSegment) *pna = NULL, *pnb = NULL;
	struct vu_view va, vb;
	UriBool r;
	int expect, expect_noabs;
	ND(unsigned char, a_null); ND(unsigned char, b_null); ND(unsigned char, owned);
	ND(unsigned char, gk);                /* ghost index: which pool cell / node is watched for the frame condition */
	URI_CHAR wa, wb;
	ND(unsigned char, shared);            /* both URIs borrow their text from ONE buffer (two URIs parsed from the same string,
	                                         ranges starting at the same address): the components may alias */
	const URI_CHAR *bp;
	VU_INPUT(a);
	VU_INPUT(b);
	__CPROVER_assume(shared <= 1);
	bp = shared ? a_pool : b_pool;
	__CPROVER_assume(vu_shape_ok(&a, a_pool) && vu_shape_ok(&b, bp));
	__CPROVER_assume(a_null <= 1 && b_null <= 1 && owned <= 1 && gk < VT);
	VMM_RESET(0);
	vu_build(&ua, &a, a_pool, owned);
	vu_build(&ub, &b, bp, owned);
	sa = ua; sb = ub; wa = a_pool[gk]; wb = bp[gk];
	vu_read(&ua, &va, VM + 1); vu_read(&ub, &vb, VM + 1);
	if (gk < va.nseg) { pna = va.node[gk]; na = *pna; }
	if (gk < vb.nseg) { pnb = vb.node[gk]; nb = *pnb; }
	VCOVER(a.nseg == VM && b.nseg == VM && a.seg[VM - 1].len == VL, "both lists have VM segments, a long one");
	VCOVER(a.hostkind == VU_HK_IP6 && b.hostkind == VU_HK_IP6 && !a_null && !b_null, "two IPv6 hosts");

	VCOVER_END;
	r = URI_FUNC(EqualsUri)(a_null ? NULL : &ua, b_null ? NULL : &ub);

	VPOST("C11", r == URI_TRUE || r == URI_FALSE, "EqualsUri returns a UriBool");
	if (a_null || b_null) {
		VPOST("C11", (r == URI_TRUE) == (a_null && b_null), "EqualsUri: two NULL arguments are equal, one NULL is not");
	} else {
		expect = spec_equal(&a, a_pool, &b, bp, 0);
		expect_noabs = spec_equal(&a, a_pool, &b, bp, 1);
		VPOST("C11", !expect || r == URI_TRUE, "EqualsUri: identical components => TRUE");
		/* known-finding region: everything but the absolute-path flag is identical and a scheme is present */
		VPOST_KF("C11", KF_C11_ABSPATH_WITH_SCHEME, (expect_noabs && !expect && a.scheme.len >= 0),
			expect || r == URI_FALSE, "EqualsUri: any differing component (incl. absolute-path flag, absent vs empty) => FALSE",
			"C11-abspath-ignored-when-scheme-present");
	}
	VCOVER_POST(!a_null && !b_null && r == URI_TRUE && a.nseg == VM && a.query.len == VL, "equal pair with VM segments and a long query");
	VCOVER_POST(!a_null && !b_null && r == URI_FALSE, "unequal pair");
	/* frame: neither argument is modified (structures, watched node, watched text cell) */
	VFRAME("C11,C12,C20", same_struct(&ua, &sa) && same_struct(&ub, &sb), "EqualsUri leaves both Uri structures bit-for-bit unchanged");
	VFRAME("C11,C12,C20", pna == NULL || (pna->next == na.next && pna->text.first == na.text.first && pna->text.afterLast == na.text.afterLast
		&& pna->reserved == na.reserved), "EqualsUri leaves every path node of a unchanged (ghost-indexed)");
	VFRAME("C11,C12,C20", pnb == NULL || (pnb->next == nb.next && pnb->text.first == nb.text.first && pnb->text.afterLast == nb.text.afterLast
		&& pnb->reserved == nb.reserved), "EqualsUri leaves every path node of b unchanged (ghost-indexed)");
	VFRAME("C11,C12,C20", a_pool[gk] == wa && bp[gk] == wb, "EqualsUri leaves the text unchanged (ghost-indexed)");
	VFRAME("C11,C13,C20", g_allocs == 0 && g_frees == 0, "EqualsUri neither allocates nor frees");
}
