/* vuri.h - symbolic well-formed URI objects for route-H harnesses, and their abstract view.
 * Include after the library's .c files (URI_CHAR / URI_TYPE / URI_FUNC are defined by then).
 * A "shape" is a tuple of small integers chosen nondeterministically; the URI is built from the shape over a text
 * pool with nondeterministic contents.  Bounds: VM segments, VL characters per component (coverage.bounds). */
#ifndef VURI_H
#define VURI_H
#include "vh.h"
#include "vmm.h"
#ifndef VM
# define VM 2
#endif
#ifndef VL
# define VL 2
#endif
#ifndef VT
# define VT 6           /* pool size: ranges are sub-ranges of one text object (they may overlap, as in parsed input) */
#endif

#ifndef VU_SLACK
# define VU_SLACK 0     /* extra characters behind the pool / behind owned blocks (see DESIGN "ISO C notes": the library forms
                           `i + 2` before comparing it with afterLast, which is undefined at the very end of an object) */
#endif
struct vu_rng { signed char len; unsigned char off; };      /* len == -1: component absent */
struct vu_shape {
	struct vu_rng scheme, userInfo, hostText, port, query, fragment;
	unsigned char hostkind;                                   /* 0 none, 1 reg-name, 2 IPv4, 3 IPv6, 4 IPvFuture */
	unsigned char ip[16];
	unsigned char nseg;
	struct vu_rng seg[VM > 0 ? VM : 1];
	unsigned char absolutePath;
	unsigned char emptyOnPlaceholder;                         /* empty segments point to uriSafeToPointTo instead of the pool */
};
#define VU_HK_NONE 0
#define VU_HK_REG 1
#define VU_HK_IP4 2
#define VU_HK_IP6 3
#define VU_HK_FUT 4

#define VU_RNG_ND(pfx, f) ND(signed char, pfx##_##f##_len); ND(unsigned char, pfx##_##f##_off); \
	pfx.f.len = pfx##_##f##_len; pfx.f.off = pfx##_##f##_off
/* declares `struct vu_shape pfx` and the pool `pfx_pool`, all from named nondeterministic inputs */
#define VU_INPUT(pfx) \
	struct vu_shape pfx; \
	ND_ARR(URI_CHAR, pfx##_pool, VT + VU_SLACK); \
	VU_RNG_ND(pfx, scheme); VU_RNG_ND(pfx, userInfo); VU_RNG_ND(pfx, hostText); VU_RNG_ND(pfx, port); \
	VU_RNG_ND(pfx, query); VU_RNG_ND(pfx, fragment); \
	ND(unsigned char, pfx##_hostkind); pfx.hostkind = pfx##_hostkind; \
	ND_ARR(unsigned char, pfx##_ip, 16); { int i_; for (i_ = 0; i_ < 16; i_++) pfx.ip[i_] = pfx##_ip[i_]; } \
	ND(unsigned char, pfx##_nseg); pfx.nseg = pfx##_nseg; \
	ND_ARR(signed char, pfx##_seglen, VM > 0 ? VM : 1); ND_ARR(unsigned char, pfx##_segoff, VM > 0 ? VM : 1); \
	{ int i_; for (i_ = 0; i_ < VM; i_++) { pfx.seg[i_].len = pfx##_seglen[i_]; pfx.seg[i_].off = pfx##_segoff[i_]; } } \
	ND(unsigned char, pfx##_absolutePath); pfx.absolutePath = pfx##_absolutePath; \
	ND(unsigned char, pfx##_emptyOnPlaceholder); pfx.emptyOnPlaceholder = pfx##_emptyOnPlaceholder

static int vu_rng_ok(const struct vu_rng *r, int mayBeAbsent) {
	if (r->len < -1 || r->len > VL) return 0;
	if (r->len == -1) return mayBeAbsent && r->off == 0;
	return (int)r->off + (int)r->len <= VT;
}

/* structural well-formedness of a shape (what every URI produced by the library satisfies, DESIGN 3.2 wf_uri);
 * `parsed` additionally demands what only holds for objects as the parser builds them */
static int vu_shape_ok(const struct vu_shape *s, const URI_CHAR *pool) {
	int i;
	if (!vu_rng_ok(&s->scheme, 1) || !vu_rng_ok(&s->userInfo, 1) || !vu_rng_ok(&s->hostText, 1)
			|| !vu_rng_ok(&s->port, 1) || !vu_rng_ok(&s->query, 1) || !vu_rng_ok(&s->fragment, 1)) return 0;
	if (s->hostkind > 4) return 0;
	if (s->nseg > VM) return 0;
	if (s->absolutePath > 1 || s->emptyOnPlaceholder > 1) return 0;
	for (i = 0; i < VM; i++) {
		if (i < s->nseg) { if (!vu_rng_ok(&s->seg[i], 0)) return 0; }
		else if (s->seg[i].len != 0 || s->seg[i].off != 0) return 0;
	}
	if (s->hostkind == VU_HK_NONE) {
		if (s->hostText.len != -1 || s->userInfo.len != -1 || s->port.len != -1) return 0;
	} else {
		if (s->hostText.len == -1) return 0;
		if (s->hostkind != VU_HK_REG && s->hostText.len < 1) return 0;
		if (s->absolutePath) return 0;          /* a host never coexists with the absolute-path flag */
	}
	if (s->hostkind != VU_HK_IP4 && s->hostkind != VU_HK_IP6)
		for (i = 0; i < 16; i++) if (s->ip[i] != 0) return 0;
	if (s->hostkind == VU_HK_IP4) for (i = 4; i < 16; i++) if (s->ip[i] != 0) return 0;
	if (s->scheme.len == 0) return 0;           /* a present scheme is never empty */
	for (i = 0; i < VT; i++) if (pool[i] == 0) return 0;   /* no NUL inside text */
	return 1;
}

/* delimiter-level legality of the component texts (what the parser guarantees, reduced to the characters that decide
 * where a component ends or how a host is classified):  scheme = ALPHA *( ALPHA / DIGIT / "+" / "-" / "." );
 * user info without "@/?#[]"; reg-name without ":/?#@[]" and not of the digits-and-dots form of an IPv4 literal;
 * IPv4 text = digits and dots with a dot; IPv6 text contains ":"; IPvFuture text starts with "v"; port = digits;
 * segments without "/?#"; query without "#" */
static int vu_in(URI_CHAR c, const char *set) { for (; *set; set++) if (c == (URI_CHAR)*set) return 1; return 0; }
static int vu_txt_ok(const struct vu_rng *r, const URI_CHAR *pool, const char *forbidden) {
	int i; for (i = 0; i < VL; i++) if (i < r->len && vu_in(pool[r->off + i], forbidden)) return 0; return 1;
}
static int vu_legal(const struct vu_shape *s, const URI_CHAR *pool) {
	int i, dots = 0, nondigit = 0, colon = 0;
	for (i = 0; i < VL; i++) if (i < s->scheme.len) {
		URI_CHAR c = pool[s->scheme.off + i];
		int alpha = (c >= _UT('a') && c <= _UT('z')) || (c >= _UT('A') && c <= _UT('Z'));
		if (!(alpha || (i > 0 && ((c >= _UT('0') && c <= _UT('9')) || c == _UT('+') || c == _UT('-') || c == _UT('.'))))) return 0;
	}
	if (!vu_txt_ok(&s->userInfo, pool, "@/?#[]")) return 0;
	for (i = 0; i < VL; i++) if (i < s->hostText.len) {
		URI_CHAR c = pool[s->hostText.off + i];
		if (c == _UT('.')) dots++; else if (!(c >= _UT('0') && c <= _UT('9'))) nondigit++;
		if (c == _UT(':')) colon++;
	}
	if (s->hostkind == VU_HK_REG && (!vu_txt_ok(&s->hostText, pool, ":/?#@[]") || (dots > 0 && nondigit == 0))) return 0;
	if (s->hostkind == VU_HK_IP4 && (nondigit > 0 || dots == 0)) return 0;
	if (s->hostkind == VU_HK_IP6 && (colon == 0 || !vu_txt_ok(&s->hostText, pool, "/?#@[]"))) return 0;
	if (s->hostkind == VU_HK_FUT && (pool[s->hostText.off] != _UT('v') || !vu_txt_ok(&s->hostText, pool, "/?#@[]"))) return 0;
	for (i = 0; i < VL; i++) if (i < s->port.len && !(pool[s->port.off + i] >= _UT('0') && pool[s->port.off + i] <= _UT('9'))) return 0;
	for (i = 0; i < VM; i++) if (i < s->nseg && !vu_txt_ok(&s->seg[i], pool, "/?#")) return 0;
	if (!vu_txt_ok(&s->query, pool, "#")) return 0;
	return 1;
}

static int vu_nblocks_owned; /* number of ledger blocks handed to the last URI built */

static void vu_set_range(URI_TYPE(TextRange) *r, const struct vu_rng *s, const URI_CHAR *pool, int owned) {
	if (s->len < 0) { r->first = NULL; r->afterLast = NULL; return; }
	if (owned && s->len > 0) {
		URI_CHAR *p = vmm_give((size_t)(s->len + VU_SLACK) * sizeof(URI_CHAR));
		int i;
		for (i = 0; i < VL; i++) if (i < s->len) p[i] = pool[s->off + i];
		r->first = p; r->afterLast = p + s->len;
		vu_nblocks_owned++;
	} else {
		r->first = pool + s->off; r->afterLast = pool + s->off + s->len;
	}
}

/* build *u from shape; segment nodes and ip blocks always come from the ledger (the library frees them) */
static void vu_build(URI_TYPE(Uri) *u, const struct vu_shape *s, const URI_CHAR *pool, int owned) {
	int i;
	URI_TYPE(PathSegment) *prev = NULL;
	memset(u, 0, sizeof(*u));
	vu_nblocks_owned = 0;
	vu_set_range(&u->scheme, &s->scheme, pool, owned);
	vu_set_range(&u->userInfo, &s->userInfo, pool, owned);
	vu_set_range(&u->hostText, &s->hostText, pool, owned);
	vu_set_range(&u->portText, &s->port, pool, owned);
	vu_set_range(&u->query, &s->query, pool, owned);
	vu_set_range(&u->fragment, &s->fragment, pool, owned);
	if (s->hostkind == VU_HK_IP4) {
		u->hostData.ip4 = vmm_give(sizeof(UriIp4)); vu_nblocks_owned++;
		for (i = 0; i < 4; i++) u->hostData.ip4->data[i] = s->ip[i];
	} else if (s->hostkind == VU_HK_IP6) {
		u->hostData.ip6 = vmm_give(sizeof(UriIp6)); vu_nblocks_owned++;
		for (i = 0; i < 16; i++) u->hostData.ip6->data[i] = s->ip[i];
	} else if (s->hostkind == VU_HK_FUT) {
		u->hostData.ipFuture = u->hostText;       /* shared range, as the parser leaves it */
	}
	for (i = 0; i < VM; i++) {
		if (i < s->nseg) {
			URI_TYPE(PathSegment) *n = vmm_give(sizeof(URI_TYPE(PathSegment)));
			vu_nblocks_owned++;
			n->next = NULL; n->reserved = NULL;
			if (s->seg[i].len == 0 && s->emptyOnPlaceholder) {
				n->text.first = URI_FUNC(SafeToPointTo); n->text.afterLast = URI_FUNC(SafeToPointTo);
			} else {
				vu_set_range(&n->text, &s->seg[i], pool, owned);
			}
			if (prev == NULL) u->pathHead = n; else prev->next = n;
			prev = n;
		}
	}
	u->pathTail = prev;
	u->absolutePath = s->absolutePath ? URI_TRUE : URI_FALSE;
	u->owner = owned ? URI_TRUE : URI_FALSE;
}

/* ---- abstract view comparison on shapes (the spec side; written from the property statements) ---- */
static int vu_rng_eq(const struct vu_rng *a, const URI_CHAR *pa, const struct vu_rng *b, const URI_CHAR *pb) {
	int i;
	if (a->len != b->len) return 0;                 /* absent (-1) is never equal to empty (0) */
	for (i = 0; i < VL; i++) if (i < a->len && pa[a->off + i] != pb[b->off + i]) return 0;
	return 1;
}

/* ---- reading the view off a real object (bounded walk) ---- */
struct vu_view {
	int nseg;                    /* -1: list longer than VM+VX or broken */
	const URI_TYPE(PathSegment) *node[VM + 3];
	int tail_is_last;
};
static void vu_read(const URI_TYPE(Uri) *u, struct vu_view *v, int maxn) {
	const URI_TYPE(PathSegment) *w = u->pathHead, *last = NULL;
	int i, n = 0;
	for (i = 0; i < VM + 3; i++) {
		if (i < maxn && w != NULL) { v->node[n++] = w; last = w; w = w->next; }
	}
	v->nseg = (w == NULL) ? n : -1;
	v->tail_is_last = (u->pathTail == last);
}
static int vu_range_wf(const URI_TYPE(TextRange) *r) {
	if (r->first == NULL) return r->afterLast == NULL;
	return r->afterLast != NULL;
}
static long vu_len(const URI_TYPE(TextRange) *r) { return r->first == NULL ? -1 : (long)(r->afterLast - r->first); }
#endif
