/* C18: filename <-> URI string conversions (route H, real uriFilenameToUriString / uriUriStringToFilename with the real
 * uriEscapeEx / uriUnescapeInPlaceEx; bounded in the filename length VF):
 *   - the URI string fits a buffer of EXACTLY the documented 7+3n+1 / 8+3n+1 (absolute) or 3n+1 (relative) characters,
 *   - it has the file:///x, file:///C:/x, file://server/share resp. relative shape and only characters legal in a path,
 *   - converting it back into a buffer of EXACTLY the documented len+1-5 / len+1 characters returns the original name,
 *   - the short forms file:/x and file:c:/x are accepted on input. */
#include "vall.h"
#ifndef VF
# define VF 3
#endif
#define UMAX (8 + 3 * VF + 1)
#define IS_UNRES(c) (((c) >= _UT('a') && (c) <= _UT('z')) || ((c) >= _UT('A') && (c) <= _UT('Z')) || ((c) >= _UT('0') && (c) <= _UT('9')) \
	|| (c) == _UT('-') || (c) == _UT('.') || (c) == _UT('_') || (c) == _UT('~'))
#define IS_HEXUP(c) (((c) >= _UT('0') && (c) <= _UT('9')) || ((c) >= _UT('A') && (c) <= _UT('F')))
/* constant trip count (the capacity is symbolic; a loop bounded by it would unwind for ever) */
static int ulen(const URI_CHAR *s, int max) { int i; for (i = 0; i <= UMAX; i++) { if (i >= max) return max; if (s[i] == 0) return i; } return max; }
static int starts(const URI_CHAR *s, const char *p) { int i; for (i = 0; p[i]; i++) if (s[i] != (URI_CHAR)p[i]) return 0; return 1; }

static void body(int fromUnix) {
	URI_CHAR name[VF + 1]; URI_CHAR uri[UMAX + 1], back[UMAX + 1]; int n, i, r, absolute, unc, ucap, ul, bcap, bl, plen, ok;
	ND_ARR(URI_CHAR, canary, UMAX + 1);
	ND_ARR(URI_CHAR, nm, VF); ND(unsigned char, len); ND(unsigned char, gj);
	__CPROVER_assume(len <= VF && gj < UMAX);
	for (i = 0; i < VF; i++) { name[i] = (i < len) ? nm[i] : 0; __CPROVER_assume(!(i < len) || (nm[i] != 0
#ifdef VW
		&& nm[i] > 0 && nm[i] <= 255
#endif
		)); }
	name[VF] = 0; n = len;
	if (fromUnix) { absolute = (n > 0 && name[0] == _UT('/')); unc = 0; }
	else {
		/* Windows names of the stated domain: backslash separators only; drive-absolute X:\.., UNC \\server\.. with a
		 * non-empty server name, or relative */
		for (i = 0; i < VF; i++) __CPROVER_assume(name[i] != _UT('/'));
		unc = (n >= 2 && name[0] == _UT('\\') && name[1] == _UT('\\'));
		absolute = unc || (n >= 2 && name[1] == _UT(':'));
		if (unc) __CPROVER_assume(n >= 3 && name[2] != _UT('\\'));
		else if (absolute) __CPROVER_assume(((name[0] >= _UT('a') && name[0] <= _UT('z')) || (name[0] >= _UT('A') && name[0] <= _UT('Z'))) && (n == 2 || name[2] == _UT('\\')));
		else __CPROVER_assume(n == 0 || name[0] != _UT('\\'));
	}
	ucap = (absolute ? (fromUnix ? 7 : 8) : 0) + 3 * n + 1;                 /* the documented size, exactly */
	/* one fixed-size array; everything at and beyond the documented capacity is a canary that must survive the call */
	for (i = 0; i <= UMAX; i++) { uri[i] = canary[i]; back[i] = canary[i]; }
	VCOVER(absolute && n == VF, "absolute name of VF characters");
	VCOVER(!absolute && n == VF, "relative name of VF characters");
	VCOVER_END;
	r = fromUnix ? URI_FUNC(UnixFilenameToUriString)(name, uri) : URI_FUNC(WindowsFilenameToUriString)(name, uri);
	VPOST("C18", r == URI_SUCCESS, "FilenameToUriString succeeds");
	ul = ulen(uri, ucap);
	VPOST("C18", ul < ucap, "FilenameToUriString: the URI string is NUL-terminated inside the documented buffer size");
	ok = 1; for (i = 0; i <= UMAX; i++) if (i >= ucap && uri[i] != canary[i]) ok = 0;
	VPOST("C18", ok, "FilenameToUriString writes nothing at or beyond the documented 7+3n+1 / 8+3n+1 / 3n+1 characters");
	plen = absolute ? (fromUnix ? 7 : (unc ? 5 : 8)) : 0;
	VPOST("C18", !absolute || (fromUnix ? starts(uri, "file:///") : (unc ? (starts(uri, "file://") && uri[7] != _UT('/')) : starts(uri, "file:///"))),
		"FilenameToUriString: absolute names give file:///x, file:///C:/x resp. file://server/share");
	VPOST("C18", absolute || ul == 0 || !starts(uri, "file:"), "FilenameToUriString: relative names give a relative reference");
	/* only characters that are legal in a path: unreserved, '/', complete upper-case triplets, and the drive colon */
	ok = (gj >= ul) || gj < plen || IS_UNRES(uri[gj]) || uri[gj] == _UT('/') || (uri[gj] == _UT('%') && gj + 2 < ul && IS_HEXUP(uri[gj + 1]) && IS_HEXUP(uri[gj + 2]))
		|| (!fromUnix && absolute && !unc && gj == plen + 1 && uri[gj] == _UT(':'));
	VPOST("C18", ok, "FilenameToUriString: the text is a valid RFC 3986 reference (path characters only, complete upper-case %XX triplets)");
#ifdef V_TO_URI_ONLY
	(void)bcap; (void)bl;
	return;
#endif
	/* back */
	bcap = ul + 1 - (absolute ? 5 : 0);                                     /* the documented size, exactly */
	__CPROVER_assume(ul < ucap);
	r = fromUnix ? URI_FUNC(UriStringToUnixFilename)(uri, back) : URI_FUNC(UriStringToWindowsFilename)(uri, back);
	VPOST("C18", r == URI_SUCCESS, "UriStringToFilename succeeds");
	bl = ulen(back, bcap);
	VPOST("C18", bl < bcap, "UriStringToFilename: the filename is NUL-terminated inside the documented buffer size");
	ok = 1; for (i = 0; i <= UMAX; i++) if (i >= bcap && back[i] != canary[i]) ok = 0;
	VPOST("C18", ok, "UriStringToFilename writes nothing at or beyond the documented len+1-5 / len+1 characters");
	ok = (bl == n); for (i = 0; i < VF; i++) if (i < n && i < bl && back[i] != name[i]) ok = 0;
	VPOST("C18", ok, "filename -> URI string -> filename returns the original filename");
}
void h_unix(void) { body(1); }
void h_windows(void) { body(0); }

/* short forms accepted on input */
void h_shortforms(void) {
	URI_CHAR in1[8] = { _UT('f'), _UT('i'), _UT('l'), _UT('e'), _UT(':'), _UT('/'), _UT('x'), 0 };
	URI_CHAR in2[10] = { _UT('f'), _UT('i'), _UT('l'), _UT('e'), _UT(':'), _UT('c'), _UT(':'), _UT('/'), _UT('x'), 0 };
	URI_CHAR o1[8 - 5], o2[10 - 5]; int r;
	ND(URI_CHAR, c);
	__CPROVER_assume(IS_UNRES(c)); in1[6] = c; in2[8] = c;
	VCOVER(c == _UT('q'), "some character");
	VCOVER_END;
	r = URI_FUNC(UriStringToUnixFilename)(in1, o1);
	VPOST("C18", r == URI_SUCCESS && o1[0] == _UT('/') && o1[1] == c && o1[2] == 0, "file:/x is accepted (Unix): /x");
	r = URI_FUNC(UriStringToWindowsFilename)(in2, o2);
	VPOST("C18", r == URI_SUCCESS && o2[0] == _UT('c') && o2[1] == _UT(':') && o2[2] == _UT('\\') && o2[3] == c && o2[4] == 0, "file:c:/x is accepted (Windows): c:\\x");
}
