/* uriMakeOwnerMm with its real callees (uriMakeOwnerEngine, uriMakeRangeOwner, uriPreventLeakage) - route H:
 *   C12  afterwards the URI owns all its text: every non-empty range is a private block (not the source text), IPvFuture
 *        text duplicated once and shared, content equal to what it was; scribbling over the source changes nothing;
 *        the source text itself is never written
 *   C07  result well formed;  C13/C14 ledger, fault injection at every allocation request */
#include "vall.h"
#include "vuri.h"
#include "spec_path.h"

#ifdef VREPLAY
# define V_IN_POOL(p, pool) ((const URI_CHAR *)(p) >= (pool) && (const URI_CHAR *)(p) < (pool) + VT)
#else
# define V_IN_POOL(p, pool) __CPROVER_same_object((p), (pool))
#endif
#define V_OWNS(r) ((r).first == NULL || (r).first == (r).afterLast || !V_IN_POOL((r).first, a_pool))

static int views_equal(const struct sv_view *x, const struct sv_view *y) {
	int i;
	if (!sv_txt_eq(&x->scheme, &y->scheme) || !sv_txt_eq(&x->userInfo, &y->userInfo) || !sv_txt_eq(&x->hostText, &y->hostText)
			|| !sv_txt_eq(&x->port, &y->port) || !sv_txt_eq(&x->query, &y->query) || !sv_txt_eq(&x->fragment, &y->fragment)) return 0;
	if (x->hostkind != y->hostkind) return 0;
	for (i = 0; i < 16; i++) if (x->ip[i] != y->ip[i]) return 0;
	return x->path.rooted == y->path.rooted && x->path.n == y->path.n && sv_path_eq(&x->path, &y->path);
}

void harness(void) {
	URI_TYPE(Uri) u; struct sv_view v0, v1, v2; int ret, ok, owns, i;
	URI_CHAR snap[VT];
	ND(unsigned long long, failmask); ND(unsigned char, owned); ND(unsigned char, null_uri);
	ND_ARR(URI_CHAR, scribble, VT);
	VU_INPUT(a);
	__CPROVER_assume(vu_shape_ok(&a, a_pool) && owned <= 1 && null_uri <= 1);
	sv_of_shape(&v0, &a, a_pool);
	for (i = 0; i < VT; i++) snap[i] = a_pool[i];
	VMM_RESET(0);
	vu_build(&u, &a, a_pool, owned);
	g_failmask = failmask;
	VCOVER(a.nseg == VM && a.hostkind == VU_HK_FUT && a.scheme.len == VL && a.query.len == VL && !owned, "borrowed URI: VM segments, IPvFuture host, long scheme and query");
	VCOVER_END;
	ret = URI_FUNC(MakeOwnerMm)(null_uri ? NULL : &u, &vmm);
	VPOST("C13", g_mm_misuse == 0, "only malloc/calloc/free of the supplied manager are used");
	if (null_uri) { VPOST("C12", ret == URI_ERROR_NULL && g_allocs == 0, "MakeOwner: NULL uri => URI_ERROR_NULL"); (void)URI_FUNC(FreeUriMembersMm)(&u, &vmm); return; }
	if (g_failed > 0) VPOST("C14", ret == URI_ERROR_MALLOC, "MakeOwner: a refused allocation request => URI_ERROR_MALLOC");
	else VPOST("C12,C14", ret == URI_SUCCESS, "MakeOwner: no allocation failure => success");
	for (i = 0; i < VT; i++) VFRAME("C12,C14,C20", a_pool[i] == snap[i], "MakeOwner never writes into the source text");
	if (ret == URI_SUCCESS) {
		ok = sv_of_uri(&v1, &u);
		VPOST("C12,C07", ok && sv_wf_uri(&u) && u.owner == URI_TRUE, "MakeOwner: result well formed, owner flag set");
		VPOST("C12", views_equal(&v1, &v0), "MakeOwner: content equals what it was before the copy (all components, host kind, address bytes, path)");
		if (!owned) {
			owns = V_OWNS(u.scheme) && V_OWNS(u.userInfo) && V_OWNS(u.hostText) && V_OWNS(u.portText) && V_OWNS(u.query) && V_OWNS(u.fragment);
			{ const URI_TYPE(PathSegment) *w = u.pathHead; for (i = 0; i < SV_MAXSEG; i++) if (w != NULL) { owns = owns && V_OWNS(w->text); w = w->next; } }
			VPOST("C12", owns, "MakeOwner: every non-empty range is a private copy, none points into the source text");
			VPOST("C12", u.hostData.ipFuture.first == NULL || (u.hostData.ipFuture.first == u.hostText.first && u.hostData.ipFuture.afterLast == u.hostText.afterLast),
				"MakeOwner: IPvFuture text is duplicated once and shared between hostText and hostData");
			/* overwrite the original text: the owned URI must not change */
			for (i = 0; i < VT; i++) a_pool[i] = scribble[i];
			ok = sv_of_uri(&v2, &u);
			VPOST("C12", ok && views_equal(&v2, &v0), "overwriting the source text after MakeOwner changes no component of the URI");
		} else {
			VPOST("C12,C13", g_allocs == 0, "MakeOwner on an already owned URI does nothing");
		}
	}
	(void)URI_FUNC(FreeUriMembersMm)(&u, &vmm);
	VPOST("C13,C14", g_live == 0, "MakeOwner (+ FreeUriMembers): no block outstanding, success or failure");
}
