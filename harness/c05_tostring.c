/* uriToStringCharsRequired / uriToString over uriToStringEngine (route H):
 *   C05  exact required size; success iff capacity >= len+1; too-long protocol; nothing written beyond the capacity
 *        (dest is a heap block of *exactly* maxChars characters: any write outside is a failed memory-safety obligation)
 *   C04  the text written equals spec_recompose(view) character by character (ghost index)
 *   C12  the URI is left unchanged */
#include "vh.h"
#ifdef V_CONTENT
# define VSTUB_MEMCPY 1      /* element loop: content obligation, fixed ample capacity */
#else
# define VSTUB_MEMCPY 2      /* check-only: capacity obligation, every capacity symbolic, exact-size destination */
#endif
#include "vall.h"
#include "vuri.h"
#include "spec_recompose.h"
#include "vframe.h"

#ifndef HKMIN
# define HKMIN 0
# define HKMAX 4
#endif

void harness(void) {
	URI_TYPE(Uri) u;
	struct vf_snap sn;
	URI_CHAR expect[SR_MAX];
	URI_CHAR *dest = NULL;
	int len, ret, ret2, required = -7, written = -7;
	ND(int, maxChars);
	ND(unsigned char, gk);
	ND(unsigned char, gj);          /* ghost index into the output */
	ND(unsigned char, cw_null);     /* charsWritten == NULL */
	ND(unsigned char, owned);
	VU_INPUT(a);
	__CPROVER_assume(vu_shape_ok(&a, a_pool));
	__CPROVER_assume(a.hostkind >= HKMIN && a.hostkind <= HKMAX);
	__CPROVER_assume(gk < VT && cw_null <= 1 && owned <= 1 && gj < SR_MAX);
#ifdef V_CONTENT
	__CPROVER_assume(maxChars == SR_MAX + 1);
#else
	__CPROVER_assume(maxChars >= -2 && maxChars <= SR_MAX + 2);
#endif
	VMM_RESET(0);
	vu_build(&u, &a, a_pool, owned);
	vf_take(&sn, &u, a_pool, gk);
	len = spec_recompose(expect, &a, a_pool);
	VBOUND(len <= SR_MAX, "specified text fits the spec buffer");
	VCOVER(a.nseg == VM && a.query.len == VL && a.fragment.len == VL && a.scheme.len == VL && a.hostkind == HKMAX, "everything present and long");
#ifndef V_CONTENT
	VCOVER(maxChars == len, "capacity one short");
	VCOVER(maxChars == len + 1, "capacity exact");
	VCOVER(maxChars < 1, "capacity below one");
#endif

	VCOVER_END;
	ret = URI_FUNC(ToStringCharsRequired)(&u, &required);
	VPOST("C05", ret == URI_SUCCESS && required == len, "ToStringCharsRequired returns exactly the length of the recomposed text");

	if (maxChars >= 1) { dest = malloc((size_t)maxChars * sizeof(URI_CHAR)); __CPROVER_assume(dest != NULL); dest[0] = _UT('x'); }
	else { dest = malloc(sizeof(URI_CHAR)); __CPROVER_assume(dest != NULL); dest[0] = _UT('x'); }
	ret2 = URI_FUNC(ToString)(dest, &u, maxChars, cw_null ? NULL : &written);
	if (maxChars >= len + 1) {
		VPOST("C05", ret2 == URI_SUCCESS, "ToString: capacity >= length+1 => success");
		VPOST("C05", cw_null || written == len + 1, "ToString: reports length+1 characters written");
		VPOST("C05,C04", ret2 != URI_SUCCESS || dest[len] == 0, "ToString: text is NUL-terminated at its length");
#ifdef V_CONTENT
		VPOST("C04", ret2 != URI_SUCCESS || gj >= len || dest[gj] == expect[gj], "ToString: text equals the RFC 3986 5.3 recomposition of the components, character by character");
#endif
	} else {
		VPOST("C05", ret2 == URI_ERROR_TOSTRING_TOO_LONG, "ToString: capacity < length+1 => URI_ERROR_TOSTRING_TOO_LONG");
		VPOST("C05", cw_null || written == 0, "ToString: too long => zero characters written reported");
		VPOST("C05", maxChars < 1 || dest[0] == 0, "ToString: too long with capacity >= 1 => empty string left");
		VPOST("C05", maxChars >= 1 || dest[0] == _UT('x'), "ToString: capacity < 1 => destination untouched");
	}
	VFRAME("C12,C20", vf_same(&sn, &u, a_pool, gk), "ToString/ToStringCharsRequired leave the URI unchanged");
	VFRAME("C13,C20", g_allocs == 0 && g_frees == 0, "ToString neither allocates nor frees");
	/* NULL handling */
	{
		int w3 = -7;
		int r3 = URI_FUNC(ToString)(NULL, &u, maxChars, &w3);
		VPOST("C05", r3 == URI_ERROR_NULL && w3 == 0, "ToString: NULL destination => URI_ERROR_NULL, zero written");
		r3 = URI_FUNC(ToStringCharsRequired)(NULL, &required);
		VPOST("C05", r3 == URI_ERROR_NULL, "ToStringCharsRequired: NULL uri => URI_ERROR_NULL");
	}
}
