/* uriNormalizeSyntaxExMm / uriNormalizeSyntaxMaskRequiredEx over uriNormalizeSyntaxEngine with all real callees inlined
 * (route H):
 *   C08  selected components take the RFC 3986 6.2.2 normal form, all others keep their text; mask-required is sufficient
 *   C09  scheme/authority presence preserved; path kind of a scheme-less, authority-less reference preserved
 *   C07  result well formed and reparse-safe
 *   C12  borrowed text never written; after normalization with a non-zero mask the URI owns all its text
 *   C13/C14  ledger balance, fault injection at every allocation request */
#include "vall.h"
#include "vuri.h"
#include "spec_path.h"
#include "spec_normalize.h"
#include "vframe.h"

#ifndef V_OWNED
# define V_OWNED 0
#endif
#ifndef V_MASKMODE
# define V_MASKMODE 0
#endif
#ifndef V_PART
# define V_PART 0   /* 1: mask query only, 2: normalization only */
#endif
#ifndef KF_C08_HOST_PCT_LOWERCASED
# define KF_C08_HOST_PCT_LOWERCASED 0
#endif
#ifndef KF_C08_NETPATH_KEEPS_DOTDOT
# define KF_C08_NETPATH_KEEPS_DOTDOT 0
#endif
#ifndef KF_C09_RELPATH_COLLAPSE
# define KF_C09_RELPATH_COLLAPSE 0
#endif
#ifndef KF_C14_NORMALIZE_PATH_LEAK
# define KF_C14_NORMALIZE_PATH_LEAK 0
#endif

#ifdef VREPLAY
# define V_IN_POOL(p, pool) ((const URI_CHAR *)(p) >= (pool) && (const URI_CHAR *)(p) < (pool) + VT)
#else
# define V_IN_POOL(p, pool) __CPROVER_same_object((p), (pool))
#endif

static int all_pct_legal(const struct sv_view *v) {
	int i;
	if (!sn_pct_legal(&v->scheme) || !sn_pct_legal(&v->userInfo) || !sn_pct_legal(&v->hostText) || !sn_pct_legal(&v->port)
			|| !sn_pct_legal(&v->query) || !sn_pct_legal(&v->fragment)) return 0;
	for (i = 0; i < SV_MAXSEG; i++) if (i < v->path.n && !sn_pct_legal(&v->path.seg[i])) return 0;
	return 1;
}
static int txt_same(const struct sv_txt *a, const struct sv_txt *b) { return sv_txt_eq(a, b); }
static int no_pct(const struct sv_txt *t) { return !sv_contains(t, _UT('%')); }

/* the normal form of v's path differs between "relative-path reference" rules (leading ".." and the "./" guard in front of a
 * segment with ':' are kept) and the rules for a path under an authority */
static int netpath_keeps_up(const struct sv_view *v) {
	struct sv_path a, b; struct sn_buf st1[SV_MAXSEG], st2[SV_MAXSEG];
	struct sv_view w = *v;
	w.hostkind = VU_HK_NONE; w.path.rooted = 0;   /* as the library sees it: no scheme, absolutePath flag clear => relative */
	spec_norm_path(&a, st1, &w);
	spec_norm_path(&b, st2, v);
	a.rooted = b.rooted;                          /* (only the segment lists are compared) */
	return !sv_path_eq(&a, &b);
}

void harness(void) {
	URI_TYPE(Uri) u;
	struct sv_view v0, v1;
	struct sn_buf e_scheme, e_user, e_host, e_query, e_frag, segstore[SV_MAXSEG];
	struct sv_path e_path;
	struct sv_txt t;
	unsigned int m0 = 12345u, m1;
	int ret, rmask, ok, i, live_before, relref, unspecified;
	URI_CHAR cell0;
	ND(unsigned long long, failmask);
	ND(unsigned int, mask);
	ND(unsigned char, gk);
	VU_INPUT(a);
	__CPROVER_assume(vu_shape_ok(&a, a_pool) && vu_legal(&a, a_pool) && gk < VT);
	sv_of_shape(&v0, &a, a_pool);
	__CPROVER_assume(sv_reparse_safe(&v0) && all_pct_legal(&v0));
	/* scheme and port have no percent-encodings; port is digits (irrelevant here) */
	__CPROVER_assume(no_pct(&v0.scheme) && no_pct(&v0.port));
#ifdef V_POOL_PCT        /* slice: the text consists of '%' and hexadecimal digits only (two adjacent percent-encodings fit into six characters) */
	{ int i_; for (i_ = 0; i_ < VT; i_++) __CPROVER_assume(a_pool[i_] == _UT('%') || (a_pool[i_] >= _UT('0') && a_pool[i_] <= _UT('9'))
		|| (a_pool[i_] >= _UT('a') && a_pool[i_] <= _UT('f')) || (a_pool[i_] >= _UT('A') && a_pool[i_] <= _UT('F'))); }
#endif
#ifdef V_COMPS           /* components outside V_COMPS are absent (bit 0 scheme, 1 user info, 2 host, 3 path, 4 query, 5 fragment, 6 port) */
	__CPROVER_assume(((V_COMPS) & 1) || a.scheme.len < 0);
	__CPROVER_assume(((V_COMPS) & 2) || a.userInfo.len < 0);
	__CPROVER_assume(((V_COMPS) & 4) || a.hostkind == VU_HK_NONE);
	__CPROVER_assume(((V_COMPS) & 8) || (a.nseg == 0 && a.absolutePath == 0));
	__CPROVER_assume(((V_COMPS) & 16) || a.query.len < 0);
	__CPROVER_assume(((V_COMPS) & 32) || a.fragment.len < 0);
	__CPROVER_assume(((V_COMPS) & 64) || a.port.len < 0);
#endif
#if V_MASKMODE == 1      /* every mask without the PATH bit */
	__CPROVER_assume((mask & URI_NORMALIZE_PATH) == 0);
#elif V_MASKMODE == 2    /* PATH only */
	__CPROVER_assume(mask == URI_NORMALIZE_PATH);
#elif V_MASKMODE == 3    /* full normalization */
	__CPROVER_assume((mask & 63u) == 63u);
#endif
#ifdef V_NOFAIL
	__CPROVER_assume(failmask == 0);
#endif
	VMM_RESET(0);
	vu_build(&u, &a, a_pool, V_OWNED);
	live_before = g_live;
	cell0 = a_pool[gk];
	/* expected normal forms, from the view before the call */
	spec_norm_text(&e_scheme, &v0.scheme, 0, 1);
	spec_norm_text(&e_user, &v0.userInfo, 1, 0);
	if (v0.hostkind == VU_HK_REG) spec_norm_text(&e_host, &v0.hostText, 1, 1);
	else if (v0.hostkind == VU_HK_FUT) spec_norm_text(&e_host, &v0.hostText, 0, 1);
	else spec_norm_text(&e_host, &v0.hostText, 0, 0);
	spec_norm_text(&e_query, &v0.query, 1, 0);
	spec_norm_text(&e_frag, &v0.fragment, 1, 0);
	spec_norm_path(&e_path, segstore, &v0);
	relref = sn_is_relpath_ref(&v0);
	/* C08 does not say what a relative-path reference whose dot-free path is empty or starts with an empty segment becomes
	 * (C09 only demands that it stays relative and non-empty): those inputs are exempt from the content comparison */
	unspecified = relref && (sv_path_empty(&e_path) || sv_path_unrooted_reads_rooted(&e_path)) && !sv_path_empty(&v0.path);
#ifndef V_COMPS
# define V_COMPS 127
#endif
	VCOVER((!((V_COMPS) & 8) || a.nseg == VM) && (!((V_COMPS) & 4) || (a.hostkind == VU_HK_REG && a.hostText.len == VL))
		&& (!((V_COMPS) & 16) || a.query.len == VL) && (!((V_COMPS) & 1) || a.scheme.len == VL), "every admitted component present at full size");
	VCOVER(!unspecified && a.nseg > 0 || !((V_COMPS) & 8), "a path whose normal form is specified");
	VCOVER_END;
#if V_PART != 2
	/* ---- mask query (read-only) ---- */
	rmask = URI_FUNC(NormalizeSyntaxMaskRequiredEx)(&u, &m0);
	VPOST("C08", rmask == URI_SUCCESS && (m0 & ~63u) == 0, "MaskRequired: success, only the six component bits");
	VFRAME("C12,C20", g_allocs == 0 && g_frees == 0, "MaskRequired neither allocates nor frees");
	{ struct sv_view vq; ok = sv_of_uri(&vq, &u);
	  VFRAME("C12,C20", ok && a_pool[gk] == cell0 && u.owner == (V_OWNED ? URI_TRUE : URI_FALSE), "MaskRequired leaves the URI and its text unchanged"); }
	/* sufficiency: a component whose bit is clear already is in normal form */
	t = sn_txt(&e_scheme); VPOST("C08", (m0 & URI_NORMALIZE_SCHEME) || txt_same(&t, &v0.scheme), "MaskRequired: SCHEME bit clear => scheme already lower-case");
	t = sn_txt(&e_user);   VPOST("C08", (m0 & URI_NORMALIZE_USER_INFO) || txt_same(&t, &v0.userInfo), "MaskRequired: USER_INFO bit clear => user info already normal");
	t = sn_txt(&e_host);   VPOST("C08", (m0 & URI_NORMALIZE_HOST) || txt_same(&t, &v0.hostText), "MaskRequired: HOST bit clear => host already normal");
	t = sn_txt(&e_query);  VPOST("C08", (m0 & URI_NORMALIZE_QUERY) || txt_same(&t, &v0.query), "MaskRequired: QUERY bit clear => query already normal");
	t = sn_txt(&e_frag);   VPOST("C08", (m0 & URI_NORMALIZE_FRAGMENT) || txt_same(&t, &v0.fragment), "MaskRequired: FRAGMENT bit clear => fragment already normal");
	VPOST_KF("C08", KF_C08_NETPATH_KEEPS_DOTDOT,
		(v0.scheme.len < 0 && v0.hostkind != VU_HK_NONE),
		(m0 & URI_NORMALIZE_PATH) || unspecified || sv_path_eq(&e_path, &v0.path), "MaskRequired: PATH bit clear => path already normal",
		"C08-network-path-reference-treated-as-relative");

#if V_PART != 2
	VCOVER_POST(m0 == 0, "URI already normal");
	VCOVER_POST(m0 != 0, "a component needs normalization");
#endif

#endif
#if V_PART != 1
	/* ---- normalization ---- */
	g_failmask = failmask;
	ret = URI_FUNC(NormalizeSyntaxExMm)(&u, mask, &vmm);
	VBOUND(g_allocs <= VMM_MAXREQ, "at most 64 allocation requests per call");
	VPOST("C13", g_mm_misuse == 0, "only malloc/calloc/free of the supplied manager are used");
	if (g_failed > 0) {
		VCOVER_POST(g_failed > 0 && g_allocs >= 3, "third allocation request refused or later");
		VPOST("C14", ret == URI_ERROR_MALLOC, "NormalizeSyntax: a refused allocation request => URI_ERROR_MALLOC");
	} else {
		VPOST("C08,C14", ret == URI_SUCCESS, "NormalizeSyntax: no allocation failure => URI_SUCCESS");
	}
	if (ret == URI_SUCCESS) {
		ok = sv_of_uri(&v1, &u);
		VPOST("C07,C08", ok && sv_wf_uri(&u), "NormalizeSyntax: result is well formed");
		/* selected components normal, others unchanged (content) */
		t = sn_txt(&e_scheme); VPOST("C08", txt_same(&v1.scheme, (mask & URI_NORMALIZE_SCHEME) ? &t : &v0.scheme), "NormalizeSyntax: scheme lower-cased iff selected, else unchanged");
		t = sn_txt(&e_user);   VPOST("C08", txt_same(&v1.userInfo, (mask & URI_NORMALIZE_USER_INFO) ? &t : &v0.userInfo), "NormalizeSyntax: user info normal iff selected, else unchanged");
		t = sn_txt(&e_host);
		VPOST_KF("C08", KF_C08_HOST_PCT_LOWERCASED,
			(v0.hostkind == VU_HK_REG && (mask & URI_NORMALIZE_HOST) && sv_contains(&v0.hostText, _UT('%'))),
			txt_same(&v1.hostText, (mask & URI_NORMALIZE_HOST) ? &t : &v0.hostText), "NormalizeSyntax: host normal (lower case, percent-encodings upper-case hex / decoded) iff selected, else unchanged",
			"C08-host-percent-encoding-lowercased");
		VPOST("C08,C09", v1.hostkind == v0.hostkind && sv_txt_eq(&v1.port, &v0.port), "NormalizeSyntax: host kind and port unchanged");
		{ int same_ip = 1; for (i = 0; i < 16; i++) if (v1.ip[i] != v0.ip[i]) same_ip = 0;
		  VPOST("C08", same_ip, "NormalizeSyntax: address bytes unchanged"); }
		t = sn_txt(&e_query);  VPOST("C08", txt_same(&v1.query, (mask & URI_NORMALIZE_QUERY) ? &t : &v0.query), "NormalizeSyntax: query normal iff selected, else unchanged");
		t = sn_txt(&e_frag);   VPOST("C08", txt_same(&v1.fragment, (mask & URI_NORMALIZE_FRAGMENT) ? &t : &v0.fragment), "NormalizeSyntax: fragment normal iff selected, else unchanged");
		if (mask & URI_NORMALIZE_PATH) {
			/* known-finding region: a network-path reference ("//h/..") whose path has a leading ".." left after dot removal -
			 * the library treats every scheme-less URI as relative and keeps it; narrowed to the inputs where that matters */
			VPOST_KF("C08,C09", KF_C08_NETPATH_KEEPS_DOTDOT, (v0.scheme.len < 0 && v0.hostkind != VU_HK_NONE && netpath_keeps_up(&v0)),
				unspecified || sv_path_eq(&v1.path, &e_path), "NormalizeSyntax: path == dot-segment removal of the percent-normalized segments (leading '..' kept only for relative-path references)",
				"C08-network-path-reference-treated-as-relative");
			/* sv_path_eq identifies the empty path with the lone empty segment (they are the same text without an
			 * authority); under an authority they are "" and "/" - different texts */
			VPOST("C08,C09", v0.hostkind == VU_HK_NONE || unspecified || (v0.scheme.len < 0 && netpath_keeps_up(&v0)) || ((v1.path.n == 0) == (e_path.n == 0)),
				"NormalizeSyntax: under an authority an empty path stays empty and a path that reduces to '/' keeps its '/'");
		} else {
			VPOST("C08", sv_path_eq(&v1.path, &v0.path), "NormalizeSyntax: path unchanged when not selected");
		}
		/* C09: presence of scheme/authority, path kind */
		VPOST("C09", (v1.scheme.len >= 0) == (v0.scheme.len >= 0) && (v1.hostkind != VU_HK_NONE) == (v0.hostkind != VU_HK_NONE),
			"NormalizeSyntax never adds or removes a scheme or an authority");
		if (v0.scheme.len < 0 && v0.hostkind == VU_HK_NONE) {
			VPOST("C09", !v0.path.rooted || v1.path.rooted, "NormalizeSyntax: an absolute path stays absolute");
			VPOST_KF("C09,C07", KF_C09_RELPATH_COLLAPSE, (relref && (mask & URI_NORMALIZE_PATH) && unspecified),
				v0.path.rooted || sv_path_empty(&v0.path) || (!v1.path.rooted && !sv_path_empty(&v1.path) && !sv_path_unrooted_reads_rooted(&v1.path)),
				"NormalizeSyntax: a relative path stays relative and non-empty", "C09-relative-path-collapses");
		}
		VPOST_KF("C07", KF_C09_RELPATH_COLLAPSE, (relref && (mask & URI_NORMALIZE_PATH) && (unspecified || (e_path.n > 0 && SV_IS_DOT(&e_path.seg[0]) && !(v0.path.n > 0 && SV_IS_DOT(&v0.path.seg[0]))))),
			sv_reparse_safe(&v1), "NormalizeSyntax: result text is read back with the same components", "C07-normalize-relative-path-reparse");
		/* C12: ownership */
		if (!V_OWNED && (mask & 63u) != 0) {
			int owns = (u.owner == URI_TRUE);
#define V_OWNS(r) ((r).first == NULL || (r).first == (r).afterLast || !V_IN_POOL((r).first, a_pool))
			owns = owns && V_OWNS(u.scheme) && V_OWNS(u.userInfo) && V_OWNS(u.hostText) && V_OWNS(u.portText) && V_OWNS(u.query) && V_OWNS(u.fragment);
			{ const URI_TYPE(PathSegment) *w = u.pathHead; for (i = 0; i < SV_MAXSEG; i++) if (w != NULL) { owns = owns && V_OWNS(w->text); w = w->next; } }
			VPOST("C12", owns, "NormalizeSyntax with a non-zero mask on a borrowed URI: every non-empty range is a private copy, owner flag set");
			VPOST("C12", u.hostData.ipFuture.first == NULL || (u.hostData.ipFuture.first == u.hostText.first && u.hostData.ipFuture.afterLast == u.hostText.afterLast),
				"NormalizeSyntax: IPvFuture text shared between hostText and hostData, duplicated once");
		}
	}
	if (!V_OWNED) VFRAME("C12,C14,C20", a_pool[gk] == cell0, "NormalizeSyntax never writes into borrowed text (ghost-indexed cell)");
	/* the caller's ordinary cleanup */
	(void)URI_FUNC(FreeUriMembersMm)(&u, &vmm);
	if (ret == URI_SUCCESS) {
		VPOST("C13", g_live == 0, "NormalizeSyntax + FreeUriMembers: no block outstanding");
	} else {
		VPOST_KF("C14,C13", KF_C14_NORMALIZE_PATH_LEAK, (!V_OWNED && (mask & URI_NORMALIZE_PATH) && a.nseg >= 2),
			g_live == 0, "NormalizeSyntax failed: no block outstanding after the caller's cleanup", "C14-normalize-borrowed-path-leak");
	}
#endif
}
