#!/usr/bin/env python3
import json,sys
d=json.load(open(sys.argv[1]))
print(d['failed']['description']); print('all:',d['all_failed'][:6])
i=d['inputs']
def txt(pfx):
    if pfx+'_pool' not in i: return None
    pool=i[pfx+'_pool']
    def r(n):
        l=i.get('%s_%s_len'%(pfx,n),-1); o=i.get('%s_%s_off'%(pfx,n),0)
        return None if l<0 else ''.join(chr(c&255) for c in pool[o:o+l])
    segs=[''.join(chr(c&255) for c in pool[i[pfx+'_segoff'][k]:i[pfx+'_segoff'][k]+i[pfx+'_seglen'][k]]) for k in range(i[pfx+'_nseg'])]
    return dict(scheme=r('scheme'),ui=r('userInfo'),host=r('hostText'),hk=i[pfx+'_hostkind'],port=r('port'),abs=i[pfx+'_absolutePath'],segs=segs,q=r('query'),f=r('fragment'),ip=i.get(pfx+'_ip'))
for p in ('a','b','r','s'):
    t=txt(p)
    if t: print(p.upper(),t)
print({k:v for k,v in i.items() if not k.startswith(('a_','b_','r_','s_')) and not isinstance(v,list)})
print(d['native'].get('output','')[-600:])
