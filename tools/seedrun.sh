#!/bin/sh
# tools/seedrun.sh <seed-id> <property> [extra check args] : apply the seeded change to /repo, run the check, undo
id=$1; prop=$2; shift 2
git -C /repo apply /tmp/seed_$id/patch.diff || exit 2
cd /verif && ./check $prop --no-evidence "$@" 2>&1 | grep -E "FAILED-OBLIGATION|VIOLATION|SUMMARY|UNDECIDED" | cut -c1-330
git -C /repo checkout -- . ; git -C /repo status --short | grep -v _build
