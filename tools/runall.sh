#!/bin/sh
# tools/runall.sh <tier> <ids...> : run checks one after another, log to /tmp/q_<id>.log
tier=$1; shift
for id in "$@"; do ( /usr/bin/time -f "%e s" ./check $id --tier $tier 2>&1 | grep -v "^WARNING" | cut -c1-260 | tail -12 ) > /tmp/q_$id.log 2>&1; done
