#!/bin/sh
# tools/mut.sh <file-under-/repo> <sed-expr> <check args...> : apply a mutation, run the check, undo
f=$1; e=$2; shift 2
cd /repo && cp "$f" /tmp/mut.bak && sed -i "$e" "$f" && if cmp -s "$f" /tmp/mut.bak; then echo "MUTATION DID NOT APPLY"; fi
cd /verif && ./check "$@" --no-evidence 2>&1 | grep -E "FAILED-OBLIGATION|VIOLATION|SUMMARY|UNDECIDED" | cut -c1-260
cd /repo && cp /tmp/mut.bak "$f" && git status --short | grep -v _build
