#!/usr/bin/env python3
"""Supporting static facts on the goto binaries of the staged library (both character passes):
   statics  (C20): the static-lifetime objects are exactly the seven constant ones (placeholder / '.' / '..' strings of both
                   passes and the default manager table); no instruction of the library assigns any of them by name.
   allocs   (C13): no function of the library other than the five uriDefault* of UriMemory.c calls malloc / calloc /
                   realloc / reallocarray / free.
usage: static_scan.py <statics|allocs> <staged-dir>      exit 0 ok, 1 fact violated (prints V:post line), 2 tool problem"""
import json, os, re, subprocess, sys, tempfile

EXPECT = {"uriSafeToPointToA", "uriSafeToPointToW", "uriConstPwdA", "uriConstPwdW", "uriConstParentA", "uriConstParentW", "defaultMemoryManager"}
ALLOC = {"malloc", "calloc", "realloc", "reallocarray", "free"}
ALLOWED_CALLERS = {"uriDefaultMalloc", "uriDefaultCalloc", "uriDefaultRealloc", "uriDefaultReallocarray", "uriDefaultFree"}


def build(staged, work):
    objs = []
    for fn in sorted(os.listdir(os.path.join(staged, "src"))):
        if fn.startswith("Uri") and fn.endswith(".c"):
            o = os.path.join(work, fn[:-2] + ".gb")
            r = subprocess.run(["goto-cc", "-I", os.path.join(staged, "src"), "-I", os.path.join(staged, "include"), "-c",
                                os.path.join(staged, "src", fn), "-o", o], capture_output=True, text=True)
            if r.returncode != 0:
                print("goto-cc failed on", fn, r.stderr[-400:]); sys.exit(2)
            objs.append(o)
    lib = os.path.join(work, "lib.gb")
    r = subprocess.run(["goto-cc"] + objs + ["-o", lib], capture_output=True, text=True)
    if r.returncode != 0:
        print("link failed", r.stderr[-400:]); sys.exit(2)
    return lib


def main():
    mode, staged = sys.argv[1], sys.argv[2]
    with tempfile.TemporaryDirectory(dir=os.path.dirname(staged.rstrip("/"))) as work:
        lib = build(staged, work)
        bad = []
        if mode == "statics":
            r = subprocess.run(["goto-instrument", "--show-symbol-table", "--json-ui", lib], capture_output=True, text=True)
            found = set()
            for it in json.loads(r.stdout):
                for name, sym in (it.get("symbolTable") or {}).items():
                    if sym.get("isStaticLifetime") and not sym.get("isType") and not name.startswith("__CPROVER") and sym.get("module"):
                        found.add(name)
            extra = found - EXPECT
            if extra:
                bad.append("static-lifetime objects beyond the seven constant ones: " + ", ".join(sorted(extra)))
            if EXPECT - found:
                print("note: expected objects not found: " + ", ".join(sorted(EXPECT - found)))
            r = subprocess.run(["goto-instrument", "--show-goto-functions", lib], capture_output=True, text=True)
            for line in r.stdout.splitlines():
                m = re.match(r"\s*(?:\d+:\s*)?ASSIGN\s+(\S+?)(?:\.|\[|\s|:=)", line)
                if m and (m.group(1) in found or m.group(1).lstrip("*") in found):
                    bad.append("instruction assigns a static-lifetime object: " + line.strip()[:160])
            print("static-lifetime objects:", ", ".join(sorted(found)))
        elif mode == "allocs":
            r = subprocess.run(["goto-instrument", "--call-graph", lib], capture_output=True, text=True)
            n = 0
            for line in r.stdout.splitlines():
                m = re.match(r"(\S+) -> (\S+)", line.strip())
                if not m:
                    continue
                n += 1
                if m.group(2) in ALLOC and m.group(1) not in ALLOWED_CALLERS and m.group(1).startswith("uri"):
                    bad.append("direct allocator call: %s -> %s" % (m.group(1), m.group(2)))
            if n < 50:
                print("call graph too small (%d edges)" % n); sys.exit(2)
            print("call-graph edges inspected:", n)
        else:
            sys.exit(2)
        if bad:
            for b in bad:
                print("V:post " + b)
            sys.exit(1)
        print("ok")
        sys.exit(0)


main()
