#!/usr/bin/env python3
"""tools/thorough_all.py [--filter REGEX] [--jobs N] [--mem GB] [--all]
Development aid: run every distinct obligation ONCE at the thorough tier (each property's thorough check is the set of
obligations listing it) and log status / time / failures to /verif/thorough_status.json (informational, not evidence).
Without --all only obligations are run whose thorough configuration differs from the quick one or that are in no quick set."""
import sys, os, json, time, re, argparse, threading
from concurrent.futures import ThreadPoolExecutor
sys.path.insert(0, os.path.dirname(os.path.dirname(os.path.abspath(__file__))))
from vlib import stage as S, run as R, obligations as O

ap = argparse.ArgumentParser()
ap.add_argument("--filter", default=".")
ap.add_argument("--jobs", type=int, default=8)
ap.add_argument("--mem", type=int, default=50)
ap.add_argument("--all", action="store_true")
a = ap.parse_args()
OUT = os.path.join(S.VERIF, "thorough_status.json")
status = json.load(open(OUT)) if os.path.exists(OUT) else {}


def differs(o):
    for k in ("defines", "unwindset", "bounds"):
        if R.resolve(o.get(k, {}), "quick") != R.resolve(o.get(k, {}), "thorough"):
            return True
    return o["tier"] != "quick" or not any(O.in_quick(o, p) for p in o["props"])


findings = []
for line in open(os.path.join(S.VERIF, "known_findings.txt")):
    if line.startswith("finding:"):
        d = dict(re.findall(r"(\w+)=(\"[^\"]*\"|\S+)", line[len("finding:"):]))
        findings.append({k: v.strip('"') for k, v in d.items()})
kf_by_id = {f["id"]: f for f in findings}
obs = [o for o in O.OBS if not o.get("quick_only") and re.search(a.filter, o["id"]) and (a.all or differs(o))]
obs.sort(key=lambda o: R.resolve(o.get("timeout_s", 600), "thorough"))
print("%d obligations" % len(obs), flush=True)
scratch = S.make_scratch()
S.stage(scratch)
lock = threading.Lock()
cv = threading.Condition()
used = [0]


def work(o):
    need = min(R.resolve(o.get("mem_gb", 8), "thorough"), a.mem)
    with cv:
        while used[0] + need > a.mem:
            cv.wait()
        used[0] += need
    t0 = time.time()
    try:
        kfd = [kf_by_id[k]["define"] for k in o.get("kf", []) if k in kf_by_id and kf_by_id[k].get("define")]
        r = R.run_obligation(o, scratch, "thorough", kfd, None)
        rec = {"status": r["status"], "wall": round(time.time() - t0), "reason": (r.get("reason") or "")[:300],
               "failures": [f["description"][:160] for f in r.get("failures", [])][:6], "kf": sorted(set(f["description"][:80] for f in r.get("kf", [])))}
    except Exception as e:
        rec = {"status": "exception", "wall": round(time.time() - t0), "reason": str(e)[:300]}
    finally:
        with cv:
            used[0] -= need
            cv.notify_all()
    with lock:
        status[o["id"]] = rec
        json.dump(status, open(OUT, "w"), indent=1, sort_keys=True)
        print("%-50s %-10s %5ds %s %s" % (o["id"], rec["status"], rec["wall"], rec.get("reason", "")[:100], "; ".join(rec.get("failures", []))[:200]), flush=True)


with ThreadPoolExecutor(max_workers=a.jobs) as ex:
    list(ex.map(work, obs))
import shutil
shutil.rmtree(scratch, ignore_errors=True)
