#!/usr/bin/env python3
"""run every quick-tier obligation once (no property filter) and print status and wall time; for budgeting"""
import sys, os, time, json, shutil
sys.path.insert(0, os.path.dirname(os.path.dirname(os.path.abspath(__file__))))
from concurrent.futures import ThreadPoolExecutor
from vlib import stage as S, run as R, obligations as O
import importlib.util
spec = importlib.util.spec_from_loader("chk", loader=None)
sel = sys.argv[1] if len(sys.argv) > 1 else ""
scratch = S.make_scratch(); S.stage(scratch)
findings = []
p = os.path.join(S.VERIF, "known_findings.txt")
import re
kf = {}
for line in open(p):
    if line.startswith("finding:"):
        d = dict(re.findall(r"(\w+)=(\"[^\"]*\"|\S+)", line[8:])); kf[d["id"]] = d.get("define")
obs = [o for o in O.OBS if o["tier"] == "quick" and sel in o["id"]]
import threading
lock = threading.Semaphore(int(os.environ.get("JOBS", "6")))
def work(o):
    with lock:
        t0 = time.time()
        r = R.run_obligation(o, scratch, "quick", [kf[k] for k in o.get("kf", []) if kf.get(k)])
        return (o["id"], r["status"], round(time.time() - t0), r.get("reason", "")[:150], len(r.get("failures", [])), len(r.get("other_property_failures", [])))
with ThreadPoolExecutor(max_workers=16) as ex:
    res = list(ex.map(work, obs))
for x in sorted(res, key=lambda x: -x[2]):
    print("%-48s %-10s %5ds  %s" % (x[0], x[1], x[2], x[3] if x[1] != "discharged" else ""))
print("total obligations", len(res), "sum s", sum(x[2] for x in res))
shutil.rmtree(scratch, ignore_errors=True)
