#!/bin/sh
# tools/seedverify.sh <id> : confirm a seeded change in its scratch worktree: patch == worktree diff, builds, test suite green,
# demo FAILS with the change and PASSES against the pristine build (/tmp/pristine/build)
id=$1; wt=/tmp/wt${SEEDGEN:-}_$id; sd=/tmp/seed${SEEDGEN:-}_$id
cd $wt || exit 2
git diff > /tmp/sv_$id.diff; if ! diff -q /tmp/sv_$id.diff $sd/patch.diff >/dev/null; then echo "NOTE: worktree diff differs from patch.diff; resetting worktree to patch"; git checkout -- . && git apply $sd/patch.diff || exit 2; fi
git -C /repo apply --check $sd/patch.diff && echo "patch applies to /repo: yes" || echo "patch applies to /repo: NO"
(cmake -G Ninja -B build -DCMAKE_BUILD_TYPE=Debug -DURIPARSER_BUILD_DOCS=OFF >/dev/null 2>&1; cmake --build build 2>&1 | grep -E "error|FAILED") 
./build/testrunner 2>&1 | tail -1
ctest --test-dir build 2>&1 | grep "tests passed"
FL=$(grep -o "fsanitize=[a-z,]*" $sd/README.txt | head -1)
for b in build:$wt /tmp/pristine/build:/tmp/pristine; do bd=${b%%:*}; case $bd in build) bd=$wt/build;; esac; src=${b##*:}
  gcc -g ${FL:+-$FL} -I $src/include $sd/demo.c -L $bd -luriparser -Wl,-rpath,$bd -o /tmp/sv_demo_$id 2>/tmp/sv_cc.log || { echo "demo build failed vs $bd: $(head -3 /tmp/sv_cc.log)"; continue; }
  /tmp/sv_demo_$id > /tmp/sv_out.log 2>&1; echo "demo vs $bd: exit $? : $(grep -E 'PASS|FAIL' /tmp/sv_out.log | head -1 | cut -c1-100)"
done
