/* Native demonstration of the C17 finding reported by ComposeSizes.*.H ("a total size beyond INT_MAX is refused rather
 * than wrapped"): one item whose key and value are each just below the per-string guard (INT_MAX / 6 characters).
 * build: gcc -O1 -I /repo/include c17_total_beyond_intmax.c -L <builddir> -luriparser -Wl,-rpath,<builddir>
 * needs about 0.8 GB of memory.  PASS = the call refuses; FAIL = it reports success with a wrapped figure. */
#include <uriparser/Uri.h>
#include <limits.h>
#include <stdio.h>
#include <stdlib.h>
#include <string.h>
int main(void) {
	size_t n = (size_t)INT_MAX / 6 - 1;
	char *k = malloc(n + 1), *v = malloc(n + 1);
	UriQueryListA item; int required = 12345, r;
	if (!k || !v) { printf("SKIP: not enough memory\n"); return 2; }
	memset(k, 'a', n); k[n] = 0; memset(v, 'b', n); v[n] = 0;
	item.key = k; item.value = v; item.next = NULL;
	r = uriComposeQueryCharsRequiredExA(&item, &required, URI_TRUE, URI_TRUE);
	printf("keylen = valuelen = %zu, worst case 6 per character: mathematical size %llu, INT_MAX %d\n", n, 12ULL * n + 1, INT_MAX);
	printf("uriComposeQueryCharsRequiredExA -> %d, charsRequired = %d\n", r, required);
	if (r == URI_SUCCESS) { printf("FAIL: a size beyond INT_MAX was reported as success (figure wrapped)\n"); return 1; }
	printf("PASS: refused with code %d\n", r); return 0;
}
