/* native side of the replay: named inputs come from a text file "name v0 v1 ..." (decimal, signed) */
#include <stdio.h>
#include <stdlib.h>
#include <string.h>

int vr_failed = 0;
static char *vr_text = NULL;

static void vr_load(const char *path) {
	FILE *f = fopen(path, "rb");
	long n;
	if (!f) { fprintf(stderr, "cannot open %s\n", path); exit(4); }
	fseek(f, 0, SEEK_END); n = ftell(f); fseek(f, 0, SEEK_SET);
	vr_text = malloc(n + 2);
	if (fread(vr_text, 1, n, f) != (size_t)n) { exit(4); }
	vr_text[n] = '\n'; vr_text[n + 1] = 0;
	fclose(f);
}

void vr_get(const char *name, void *dst, size_t elem, size_t n) {
	size_t len = strlen(name), i;
	const char *p = vr_text;
	memset(dst, 0, elem * n);
	while (p && *p) {
		const char *eol = strchr(p, '\n');
		if (strncmp(p, name, len) == 0 && p[len] == ' ') {
			const char *q = p + len;
			for (i = 0; i < n; i++) {
				char *end; long long v;
				while (*q == ' ') q++;
				if (q >= eol) break;
				v = (*q == '-') ? strtoll(q, &end, 10) : (long long)strtoull(q, &end, 10);
				if (end == q) break;
				q = end;
				switch (elem) {
				case 1: ((signed char *)dst)[i] = (signed char)v; break;
				case 2: ((short *)dst)[i] = (short)v; break;
				case 4: ((int *)dst)[i] = (int)v; break;
				case 8: ((long long *)dst)[i] = v; break;
				default: break;
				}
			}
			return;
		}
		p = eol ? eol + 1 : NULL;
	}
	printf("REPLAY-NOTE: input %s not in the counterexample, using 0\n", name);
}

#ifndef VENTRY
# define VENTRY harness
#endif
void VENTRY(void);

int main(int argc, char **argv) {
	if (argc < 2) { fprintf(stderr, "usage: rp inputs.txt\n"); return 4; }
	vr_load(argv[1]);
	VENTRY();
	if (vr_failed) { printf("REPLAY-RESULT: violation reproduced on the real code\n"); return 1; }
	printf("REPLAY-RESULT: no assertion fired\n");
	return 0;
}
