/* ghost call log shared by stubs/wrapper_callees.c and harness/c21_wrappers.c */
#ifndef WRAPPER_LOG_H
#define WRAPPER_LOG_H
#define WC_MAX 4
enum { WC_ADDBASE = 1, WC_REMOVEBASE, WC_NORMALIZE, WC_MASKREQ, WC_MAKEOWNER, WC_FREEMEMBERS, WC_PARSE, WC_PARSESINGLE, WC_ESCAPE,
       WC_UNESCAPE, WC_COMPOSEENGINE, WC_COMPOSEMALLOC, WC_DISSECT, WC_FREEQUERYLIST, WC_STRLEN };
extern int g_wc_n;
extern int g_wc_id[WC_MAX];
extern const void *g_wc_p[WC_MAX][6];
extern long long g_wc_i[WC_MAX][4];
extern int g_wc_ret;
extern size_t g_wc_len;
extern int g_wc_mask_written; extern unsigned int g_wc_mask_value, g_wc_mask_entry;
#endif
