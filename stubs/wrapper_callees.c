/* Logging contract stubs of the manager-taking / option-taking functions the thin public wrappers forward to
 * (obligation Wrappers.*.H, route H, callees replaced).  What a wrapper's contract says is *which* function it calls,
 * *once*, with *which* arguments, and that it hands the result back; so each stub records its identity and its arguments
 * in a ghost log and returns a nondeterministic result chosen by the harness.  The stubs never touch their arguments
 * (except the out-mask of the mask query, see below): the behaviour of the real callees is the business of their own
 * obligations (AddBaseUri.*.H, RemoveBaseUri.*.H, NormalizeSyntax.*, MakeOwner.*, ParseSingleUriExMm.*.D, ...).
 * strlen / wcslen: assumed libc contract in logging form - the harness supplies the length it "finds". */
#include "vh.h"
#include <uriparser/UriDefsConfig.h>
#ifdef VW
# include <uriparser/UriDefsUnicode.h>
#else
# include <uriparser/UriDefsAnsi.h>
#endif
#include <uriparser/Uri.h>
#include "wrapper_log.h"

int g_wc_n;
int g_wc_id[WC_MAX];
const void *g_wc_p[WC_MAX][6];
long long g_wc_i[WC_MAX][4];
int g_wc_ret;                    /* what every int-returning callee returns (harness: nondeterministic) */
URI_CHAR *g_wc_retp;             /* what the escape functions return */
size_t g_wc_len;                 /* what strlen / wcslen returns */
int g_wc_mask_written; unsigned int g_wc_mask_value, g_wc_mask_entry;

#define WC_LOG(ID, P0, P1, P2, P3, P4, P5, I0, I1, I2, I3) do { int k_ = g_wc_n; \
	__CPROVER_assert(k_ < WC_MAX, "V:bound callee log large enough"); \
	g_wc_id[k_] = (ID); g_wc_p[k_][0] = (const void *)(P0); g_wc_p[k_][1] = (const void *)(P1); g_wc_p[k_][2] = (const void *)(P2); \
	g_wc_p[k_][3] = (const void *)(P3); g_wc_p[k_][4] = (const void *)(P4); g_wc_p[k_][5] = (const void *)(P5); \
	g_wc_i[k_][0] = (long long)(I0); g_wc_i[k_][1] = (long long)(I1); g_wc_i[k_][2] = (long long)(I2); g_wc_i[k_][3] = (long long)(I3); \
	g_wc_n = k_ + 1; } while (0)

int URI_FUNC(AddBaseUriExMm)(URI_TYPE(Uri) *absDest, const URI_TYPE(Uri) *relSource, const URI_TYPE(Uri) *absBase,
		UriResolutionOptions options, UriMemoryManager *memory) {
	WC_LOG(WC_ADDBASE, absDest, relSource, absBase, memory, 0, 0, options, 0, 0, 0); return g_wc_ret;
}
int URI_FUNC(RemoveBaseUriMm)(URI_TYPE(Uri) *dest, const URI_TYPE(Uri) *absSource, const URI_TYPE(Uri) *absBase,
		UriBool domainRootMode, UriMemoryManager *memory) {
	WC_LOG(WC_REMOVEBASE, dest, absSource, absBase, memory, 0, 0, domainRootMode, 0, 0, 0); return g_wc_ret;
}
int URI_FUNC(NormalizeSyntaxExMm)(URI_TYPE(Uri) *uri, unsigned int mask, UriMemoryManager *memory) {
	WC_LOG(WC_NORMALIZE, uri, memory, 0, 0, 0, 0, mask, 0, 0, 0); return g_wc_ret;
}
int URI_FUNC(NormalizeSyntaxMaskRequiredEx)(const URI_TYPE(Uri) *uri, unsigned int *outMask) {
	WC_LOG(WC_MASKREQ, uri, outMask, 0, 0, 0, 0, 0, 0, 0, 0);
	if (outMask != NULL) { g_wc_mask_entry = *outMask; if (g_wc_mask_written) *outMask = g_wc_mask_value; }
	return g_wc_ret;
}
int URI_FUNC(MakeOwnerMm)(URI_TYPE(Uri) *uri, UriMemoryManager *memory) {
	WC_LOG(WC_MAKEOWNER, uri, memory, 0, 0, 0, 0, 0, 0, 0, 0); return g_wc_ret;
}
int URI_FUNC(FreeUriMembersMm)(URI_TYPE(Uri) *uri, UriMemoryManager *memory) {
	WC_LOG(WC_FREEMEMBERS, uri, memory, 0, 0, 0, 0, 0, 0, 0, 0); return g_wc_ret;
}
int URI_FUNC(ParseUriExMm)(URI_TYPE(ParserState) *state, const URI_CHAR *first, const URI_CHAR *afterLast, UriMemoryManager *memory) {
	WC_LOG(WC_PARSE, state, first, afterLast, memory, 0, 0, 0, 0, 0, 0); return g_wc_ret;
}
int URI_FUNC(ParseSingleUriExMm)(URI_TYPE(Uri) *uri, const URI_CHAR *first, const URI_CHAR *afterLast, const URI_CHAR **errorPos,
		UriMemoryManager *memory) {
	WC_LOG(WC_PARSESINGLE, uri, first, afterLast, errorPos, memory, 0, 0, 0, 0, 0); return g_wc_ret;
}
URI_CHAR *URI_FUNC(EscapeEx)(const URI_CHAR *inFirst, const URI_CHAR *inAfterLast, URI_CHAR *out, UriBool spaceToPlus, UriBool normalizeBreaks) {
	WC_LOG(WC_ESCAPE, inFirst, inAfterLast, out, 0, 0, 0, spaceToPlus, normalizeBreaks, 0, 0); return g_wc_retp;
}
const URI_CHAR *URI_FUNC(UnescapeInPlaceEx)(URI_CHAR *inout, UriBool plusToSpace, UriBreakConversion breakConversion) {
	WC_LOG(WC_UNESCAPE, inout, 0, 0, 0, 0, 0, plusToSpace, breakConversion, 0, 0); return g_wc_retp;
}
int URI_FUNC(ComposeQueryEngine)(URI_CHAR *dest, const URI_TYPE(QueryList) *queryList, int maxChars, int *charsWritten, int *charsRequired,
		UriBool spaceToPlus, UriBool normalizeBreaks) {
	WC_LOG(WC_COMPOSEENGINE, dest, queryList, charsWritten, charsRequired, 0, 0, maxChars, spaceToPlus, normalizeBreaks, 0); return g_wc_ret;
}
int URI_FUNC(ComposeQueryMallocExMm)(URI_CHAR **dest, const URI_TYPE(QueryList) *queryList, UriBool spaceToPlus, UriBool normalizeBreaks,
		UriMemoryManager *memory) {
	WC_LOG(WC_COMPOSEMALLOC, dest, queryList, memory, 0, 0, 0, spaceToPlus, normalizeBreaks, 0, 0); return g_wc_ret;
}
int URI_FUNC(DissectQueryMallocExMm)(URI_TYPE(QueryList) **dest, int *itemCount, const URI_CHAR *first, const URI_CHAR *afterLast,
		UriBool plusToSpace, UriBreakConversion breakConversion, UriMemoryManager *memory) {
	WC_LOG(WC_DISSECT, dest, itemCount, first, afterLast, memory, 0, plusToSpace, breakConversion, 0, 0); return g_wc_ret;
}
int URI_FUNC(FreeQueryListMm)(URI_TYPE(QueryList) *queryList, UriMemoryManager *memory) {
	WC_LOG(WC_FREEQUERYLIST, queryList, memory, 0, 0, 0, 0, 0, 0, 0, 0); return g_wc_ret;
}
#ifdef VW
size_t wcslen(const wchar_t *s) { WC_LOG(WC_STRLEN, s, 0, 0, 0, 0, 0, 0, 0, 0, 0); return g_wc_len; }
#else
size_t strlen(const char *s) { WC_LOG(WC_STRLEN, s, 0, 0, 0, 0, 0, 0, 0, 0, 0); return g_wc_len; }
#endif
