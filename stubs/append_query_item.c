/* Contract stub of uriAppendQueryItem{A,W} for the uriDissectQueryMallocExMm obligation (route H, callee replaced):
 * what the caller may rely on - and what obligation AppendQueryItem.*.H proves about the real body:
 *   - NULL/inverted ranges, or an empty key without value: TRUE, no effect;
 *   - otherwise either FALSE with *prevNext == NULL and nothing allocated (a request was refused),
 *     or TRUE with one new node linked at *prevNext (next == NULL) and *itemCount incremented.
 * Every call is logged (which sub-ranges were handed over, in which order) so that the caller's postcondition can say
 * where the text was split.  The node's key/value strings are not modelled here (they are the real function's job). */
#include "vh.h"
#include <uriparser/UriDefsConfig.h>
#ifdef VW
# include <uriparser/UriDefsUnicode.h>
#else
# include <uriparser/UriDefsAnsi.h>
#endif
#include <uriparser/Uri.h>
#define AQ_MAX 8
int g_aq_n;
const URI_CHAR *g_aq_kf[AQ_MAX], *g_aq_ka[AQ_MAX], *g_aq_vf[AQ_MAX], *g_aq_va[AQ_MAX];
int g_aq_p2s[AQ_MAX], g_aq_br[AQ_MAX], g_aq_effective[AQ_MAX];
unsigned long long g_aq_failmask;   /* bit k: the k-th effective call is refused */
_Bool nondet_aq(void);
UriBool URI_FUNC(AppendQueryItem)(URI_TYPE(QueryList) **prevNext, int *itemCount, const URI_CHAR *keyFirst, const URI_CHAR *keyAfter,
		const URI_CHAR *valueFirst, const URI_CHAR *valueAfter, UriBool plusToSpace, UriBreakConversion breakConversion, UriMemoryManager *memory) {
	int k = g_aq_n;
	URI_TYPE(QueryList) *node;
	__CPROVER_assert(k < AQ_MAX, "V:bound AppendQueryItem call log large enough");
	g_aq_kf[k] = keyFirst; g_aq_ka[k] = keyAfter; g_aq_vf[k] = valueFirst; g_aq_va[k] = valueAfter;
	g_aq_p2s[k] = plusToSpace; g_aq_br[k] = (int)breakConversion; g_aq_effective[k] = 0;
	g_aq_n = k + 1;
	if (prevNext == NULL || itemCount == NULL || keyFirst == NULL || keyAfter == NULL || keyFirst > keyAfter
			|| (valueFirst != NULL && valueAfter != NULL && valueFirst > valueAfter)   /* (two NULLs: no value; never inverted) */
			|| (keyFirst == keyAfter && valueFirst == NULL && valueAfter == NULL)) return URI_TRUE;
	g_aq_effective[k] = 1;
	node = memory->malloc(memory, sizeof(URI_TYPE(QueryList)));
	if (node == NULL) { *prevNext = NULL; return URI_FALSE; }
	node->key = NULL; node->value = NULL; node->next = NULL;
	*prevNext = node;
	(*itemCount)++;
	return URI_TRUE;
}
