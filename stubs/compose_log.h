/* ghost tables shared by stubs/compose_callees.c and harness/c17_sizes.c */
#ifndef COMPOSE_LOG_H
#define COMPOSE_LOG_H
#define CS_MAX 8
extern int g_cs_n;                        /* number of strings in the table */
extern const void *g_cs_ptr[CS_MAX];      /* start of string t */
extern size_t g_cs_len[CS_MAX];           /* its length (what strlen "finds") */
extern size_t g_cs_esc[CS_MAX];           /* how many characters escaping it produces (harness: any value <= worst * len) */
extern const void *g_cs_dest; extern size_t g_cs_destchars;   /* the destination block and its capacity in characters */
extern int g_cs_s2p, g_cs_nb;             /* the options the engine was given */
extern int g_cs_escapes, g_cs_bad;        /* calls of the escape stub; contract violations by the caller */
#endif
