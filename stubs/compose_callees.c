/* Contract stubs of uriEscapeEx and strlen/wcslen for the uriComposeQueryEngine size obligation (ComposeSizes.*.H):
 * string lengths stay symbolic (up to 2^40), so the INT_MAX guards and every `int` computation of the engine are
 * decided for all lengths.
 *   strlen(s): s must be one of the strings of the list; returns the length recorded for it.
 *   uriEscapeEx(first, afterLast, out, spaceToPlus, normalizeBreaks) - the clauses EscapeEx.A.N proves on the real body:
 *     requires: the options are the engine's; afterLast == first + strlen(first); `out` points into the destination and
 *               the destination has room for the escaped text and its terminator behind `out`;
 *     ensures:  returns out + e, where e <= 3 (6) * length is the number of characters produced (chosen by the harness,
 *               any admissible value), after writing the terminator there. */
#include "vh.h"
#include <uriparser/UriDefsConfig.h>
#ifdef VW
# include <uriparser/UriDefsUnicode.h>
#else
# include <uriparser/UriDefsAnsi.h>
#endif
#include <uriparser/Uri.h>
#include "compose_log.h"
int g_cs_n; const void *g_cs_ptr[CS_MAX]; size_t g_cs_len[CS_MAX]; size_t g_cs_esc[CS_MAX];
const void *g_cs_dest; size_t g_cs_destchars; int g_cs_s2p, g_cs_nb, g_cs_escapes, g_cs_bad;

static int cs_find(const void *s) { int t, r = -1; for (t = 0; t < CS_MAX; t++) if (t < g_cs_n && g_cs_ptr[t] == s) r = t; return r; }

#ifdef VW
size_t wcslen(const wchar_t *s)
#else
size_t strlen(const char *s)
#endif
{
	int t = cs_find(s);
	__CPROVER_assert(t >= 0, "V:pre[C17] strlen is only applied to a key or a value of the list");
	if (t < 0) { g_cs_bad = 1; return 0; }
	return g_cs_len[t];
}

URI_CHAR *URI_FUNC(EscapeEx)(const URI_CHAR *inFirst, const URI_CHAR *inAfterLast, URI_CHAR *out, UriBool spaceToPlus, UriBool normalizeBreaks) {
	size_t e = 0, off;
	g_cs_escapes++;
	__CPROVER_assert(out != NULL && __CPROVER_same_object(out, g_cs_dest), "V:pre[C17] the escape output lies in the destination block");
	__CPROVER_assert((spaceToPlus != URI_FALSE) == (g_cs_s2p != 0) && (normalizeBreaks == URI_TRUE) == (g_cs_nb != 0), "V:pre[C17] the engine hands its options to uriEscapeEx");
	if (inFirst != NULL) {
		int t = cs_find(inFirst);
		__CPROVER_assert(t >= 0 && inAfterLast == inFirst + g_cs_len[t], "V:pre[C17] the engine escapes exactly one key or value: [s, s + strlen(s))");
		if (t < 0) { g_cs_bad = 1; return out; }
		e = g_cs_esc[t];
	}
	off = __CPROVER_POINTER_OFFSET(out) / sizeof(URI_CHAR);
	__CPROVER_assert(off + e + 1 <= g_cs_destchars, "V:pre[C17,C19] room for the escaped text and its terminator inside maxChars characters");
	if (!(off + e + 1 <= g_cs_destchars)) { g_cs_bad = 1; return out; }
	out[e] = _UT('\0');
	return out + e;
}
